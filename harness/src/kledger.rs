//! Kernel-ownership ledger for io_uring write buffers + a tracking global allocator.
//!
//! A buffer handed to the kernel in a submission-queue entry (hook `queued("uring", ..)`)
//! belongs to the kernel until the code has *seen* its completion-queue entry (hook note
//! `uring_done`). Returning such memory to the allocator in between is the C20 clause
//! "reuse of a buffer the kernel may still be writing from" — whatever path frees it.
//! The allocator wrapper sees every real deallocation of the process; a buffer that is
//! leaked instead (what the unchanged code does after a failed io_uring_enter) never
//! reaches it. On a violation the memory is *not* freed (so that neither the kernel nor
//! the harness ever touches recycled memory) and the event is recorded.
//!
//! Nothing in here allocates: the ledger is a fixed array behind a spin lock, and the
//! fast path (ledger empty) is one relaxed load.

use std::alloc::{GlobalAlloc, Layout, System};
use std::sync::atomic::{AtomicBool, AtomicUsize, Ordering};

const CAP: usize = 2048;

struct Ledger {
    lock: AtomicBool,
    len: AtomicUsize,
    entries: std::cell::UnsafeCell<[(usize, usize); CAP]>,
}

unsafe impl Sync for Ledger {}

static LEDGER: Ledger = Ledger { lock: AtomicBool::new(false), len: AtomicUsize::new(0), entries: std::cell::UnsafeCell::new([(0, 0); CAP]) };
/// first violation since the last `take_violation`: (address, length of the kernel-owned range)
static VIOL_PTR: AtomicUsize = AtomicUsize::new(0);
static VIOL_LEN: AtomicUsize = AtomicUsize::new(0);
static VIOLATIONS: AtomicUsize = AtomicUsize::new(0);
static QUEUED: AtomicUsize = AtomicUsize::new(0);
static COMPLETED: AtomicUsize = AtomicUsize::new(0);
static OVERFLOW: AtomicBool = AtomicBool::new(false);

fn with_lock<T>(f: impl FnOnce(&mut [(usize, usize); CAP]) -> T) -> T {
    while LEDGER.lock.compare_exchange_weak(false, true, Ordering::Acquire, Ordering::Relaxed).is_err() {
        std::hint::spin_loop();
    }
    let r = f(unsafe { &mut *LEDGER.entries.get() });
    LEDGER.lock.store(false, Ordering::Release);
    r
}

/// The kernel now owns `[ptr, ptr+len)`.
pub fn kernel_owns(ptr: usize, len: usize) {
    if len == 0 {
        return;
    }
    QUEUED.fetch_add(1, Ordering::Relaxed);
    with_lock(|e| {
        let n = LEDGER.len.load(Ordering::Relaxed);
        if n >= CAP {
            OVERFLOW.store(true, Ordering::Relaxed);
            return;
        }
        e[n] = (ptr, len);
        LEDGER.len.store(n + 1, Ordering::Release);
    });
}

/// The code has seen the completion of the submission that used the buffer at `ptr`.
pub fn completion_seen(ptr: usize) {
    COMPLETED.fetch_add(1, Ordering::Relaxed);
    with_lock(|e| {
        let n = LEDGER.len.load(Ordering::Relaxed);
        if let Some(i) = e[..n].iter().position(|x| x.0 == ptr) {
            e[i] = e[n - 1];
            LEDGER.len.store(n - 1, Ordering::Release);
        }
    });
}

/// (address, length) of the first kernel-owned buffer that was freed, if any.
pub fn take_violation() -> Option<(usize, usize)> {
    let p = VIOL_PTR.swap(0, Ordering::SeqCst);
    if p == 0 {
        None
    } else {
        Some((p, VIOL_LEN.load(Ordering::SeqCst)))
    }
}

pub fn counters() -> (usize, usize, usize, usize) {
    (QUEUED.load(Ordering::Relaxed), COMPLETED.load(Ordering::Relaxed), LEDGER.len.load(Ordering::Relaxed), VIOLATIONS.load(Ordering::Relaxed))
}

pub fn overflowed() -> bool {
    OVERFLOW.load(Ordering::Relaxed)
}

#[inline]
fn kernel_owned(ptr: usize, size: usize) -> bool {
    if LEDGER.len.load(Ordering::Relaxed) == 0 {
        return false;
    }
    let hit = with_lock(|e| {
        let n = LEDGER.len.load(Ordering::Relaxed);
        e[..n].iter().find(|x| x.0 < ptr + size && ptr < x.0 + x.1).copied()
    });
    match hit {
        Some((p, l)) => {
            VIOLATIONS.fetch_add(1, Ordering::Relaxed);
            if VIOL_PTR.compare_exchange(0, p, Ordering::SeqCst, Ordering::SeqCst).is_ok() {
                VIOL_LEN.store(l, Ordering::SeqCst);
            }
            true
        }
        None => false,
    }
}

pub struct Tracking;

unsafe impl GlobalAlloc for Tracking {
    #[inline]
    unsafe fn alloc(&self, layout: Layout) -> *mut u8 {
        System.alloc(layout)
    }
    #[inline]
    unsafe fn alloc_zeroed(&self, layout: Layout) -> *mut u8 {
        System.alloc_zeroed(layout)
    }
    #[inline]
    unsafe fn dealloc(&self, ptr: *mut u8, layout: Layout) {
        if kernel_owned(ptr as usize, layout.size()) {
            return; // leaked on purpose, see the module comment
        }
        System.dealloc(ptr, layout)
    }
    #[inline]
    unsafe fn realloc(&self, ptr: *mut u8, layout: Layout, new_size: usize) -> *mut u8 {
        if kernel_owned(ptr as usize, layout.size()) {
            let new = System.alloc(Layout::from_size_align_unchecked(new_size, layout.align()));
            if !new.is_null() {
                std::ptr::copy_nonoverlapping(ptr, new, layout.size().min(new_size));
            }
            return new;
        }
        System.realloc(ptr, layout, new_size)
    }
}
