//! SCHED — controlled scheduler over real threads.
//!
//! Exactly one registered thread runs at a time ("holds the token"). A thread gives
//! the token up at every hook (`point`, `wait_until`, `yield_now`, thread start/end);
//! the thread giving it up computes the enabled set and picks the next thread from
//! the schedule prefix or, past the prefix, the canonical default. Deviation-bounded
//! depth-first exploration is driven from outside (`explore`).

use crate::session::SchedHooks;
use feoxdb::verif::Tick;
use parking_lot::{Condvar, Mutex};
use std::cell::Cell;
use std::sync::atomic::{AtomicBool, AtomicU64, Ordering};
use std::sync::Arc;
use std::time::{Duration, Instant};

thread_local! {
    static LAST_TS: Cell<u64> = const { Cell::new(0) };
    static MY_TID: Cell<Option<usize>> = const { Cell::new(None) };
}

pub fn note_thread_timestamp(ts: u64) {
    LAST_TS.with(|c| c.set(ts));
}

/// Timestamp most recently resolved by a store call on this thread (0 = none since reset).
pub fn take_thread_timestamp() -> u64 {
    LAST_TS.with(|c| c.replace(0))
}

#[derive(Clone, Copy, Debug, PartialEq, Eq)]
pub enum Status {
    /// Holds the token (or is a background thread in free mode).
    Running,
    /// Parked at a scheduling point; runnable.
    AtPoint,
    /// Parked after a voluntary yield; runnable, but the default prefers others.
    Yielded,
    /// Parked in a visible wait; runnable iff its predicate holds.
    Waiting,
    Finished,
    /// slot reserved for a background thread that has not been adopted yet
    NotStarted,
}

struct Pred(*const (dyn Fn() -> bool + 'static));
unsafe impl Send for Pred {}

pub struct ThreadInfo {
    pub role: &'static str,
    pub app: bool,
    pub status: Status,
    pub last_point: &'static str,
    pub last_args: (u64, u64),
    pred: Option<Pred>,
    last_scheduled: u64,
    /// kernel thread id (to tell a starved thread from a blocked one)
    os_tid: i32,
}

#[derive(Clone, Debug)]
pub struct Decision {
    pub enabled: Vec<usize>,
    pub chosen: usize,
    pub default: usize,
    /// cost of picking anything but the default here (0 when the previous thread is blocked or finished)
    pub alt_cost: u32,
    /// (tid, point) of every enabled thread, for replay comparison
    pub at: Vec<(usize, &'static str)>,
}

#[derive(Clone, Debug, PartialEq, Eq)]
pub enum Outcome {
    Completed,
    Deadlock(String),
    Horizon(String),
    Diverged(String),
    Stuck(String),
}

pub struct State {
    pub threads: Vec<ThreadInfo>,
    controlled: bool,
    token: Option<usize>,
    prev: Option<usize>,
    prefix: Vec<usize>,
    pub trace: Vec<Decision>,
    step: u64,
    horizon: usize,
    pub outcome: Option<Outcome>,
    pub pins: Vec<(usize, u64, u64)>,
    pub monitor: Vec<String>,
    last_progress: Instant,
    /// called at every decision while every thread is parked
    on_decision: Option<Box<dyn Fn() -> Option<String> + Send>>,
    /// a thread that was finishing found nobody enabled: the decision is taken by the
    /// harness thread in `wait_done` once the finished thread has really gone (a join
    /// on it can only complete after it has left this code)
    deferred: bool,
    /// kernel thread id of the background thread whose exit the deferred decision waits for
    exiting: i32,
}

pub struct Sched {
    pub m: Mutex<State>,
    cv: Condvar,
    stop_polling: AtomicBool,
    pub decisions_total: AtomicU64,
    tick_granted: std::sync::atomic::AtomicU32,
}

impl Sched {
    /// `background`: roles of the store's background threads in the order that fixes
    /// their thread ids (adoption order is not deterministic).
    pub fn new(prefix: Vec<usize>, horizon: usize, background: &[&'static str]) -> Arc<Sched> {
        let threads = background
            .iter()
            .map(|role| ThreadInfo { role, app: false, status: Status::NotStarted, last_point: "unborn", last_args: (0, 0), pred: None, os_tid: 0, last_scheduled: 0 })
            .collect();
        Arc::new(Sched {
            m: Mutex::new(State {
                threads,
                controlled: false,
                token: None,
                prev: None,
                prefix,
                trace: Vec::new(),
                step: 0,
                horizon,
                outcome: None,
                    pins: Vec::new(),
                monitor: Vec::new(),
                last_progress: Instant::now(),
                on_decision: None,
            deferred: false,
            exiting: 0,
            }),
            cv: Condvar::new(),
            stop_polling: AtomicBool::new(false),
            decisions_total: AtomicU64::new(0),
            tick_granted: std::sync::atomic::AtomicU32::new(0),
        })
    }

    pub fn set_on_decision(&self, f: Box<dyn Fn() -> Option<String> + Send>) {
        self.m.lock().on_decision = Some(f);
    }

    fn my_tid() -> Option<usize> {
        MY_TID.with(|c| c.get())
    }

    /// Register the calling thread. Application threads are registered by the harness
    /// in a fixed order before the controlled phase starts.
    pub fn register(&self, role: &'static str, app: bool) -> usize {
        let mut st = self.m.lock();
        if !app {
            if let Some(tid) = st.threads.iter().position(|t| t.role == role && t.status == Status::NotStarted) {
                st.threads[tid].status = Status::Running;
                st.threads[tid].last_point = "start";
                st.threads[tid].os_tid = unsafe { libc::gettid() };
                MY_TID.with(|c| c.set(Some(tid)));
                self.cv.notify_all();
                return tid;
            }
        }
        let tid = st.threads.len();
        st.threads.push(ThreadInfo {
            role,
            app,
            status: Status::Running,
            last_point: "start",
            last_args: (0, 0),
            pred: None,
            last_scheduled: 0,
            os_tid: unsafe { libc::gettid() },
        });
        MY_TID.with(|c| c.set(Some(tid)));
        self.cv.notify_all();
        tid
    }

    pub fn unregister_current() {
        MY_TID.with(|c| c.set(None));
    }

    pub fn grant_tick(&self) {
        self.tick_granted.fetch_add(1, Ordering::SeqCst);
    }

    pub fn ticks_outstanding(&self) -> u32 {
        self.tick_granted.load(Ordering::SeqCst)
    }

    /// Application threads wait here (in any mode) until the controlled phase hands
    /// them the token for the first time.
    pub fn start_gate(&self, tid: usize) {
        let mut st = self.m.lock();
        st.threads[tid].status = Status::AtPoint;
        st.threads[tid].last_point = "start";
        self.cv.notify_all();
        while st.outcome.is_none() && !(st.controlled && st.token == Some(tid)) {
            self.cv.wait(&mut st);
        }
        st.threads[tid].status = Status::Running;
    }

    fn enabled(st: &State) -> Vec<usize> {
        let mut v = Vec::new();
        for (i, t) in st.threads.iter().enumerate() {
            match t.status {
                Status::AtPoint | Status::Yielded => v.push(i),
                Status::Waiting => {
                    if let Some(p) = &t.pred {
                        // SAFETY: the owner is parked inside `wait_until` for as long as
                        // the pointer is stored; it removes it before returning.
                        if unsafe { (*p.0)() } {
                            v.push(i);
                        }
                    }
                }
                _ => {}
            }
        }
        v
    }

    /// Pick the next thread and hand it the token. Called with the state locked by the
    /// thread that just parked / finished (it no longer holds the token).
    fn schedule_next(&self, st: &mut State) {
        if !st.controlled || st.outcome.is_some() {
            return;
        }
        st.token = None;
        st.last_progress = Instant::now();
        // Settle: effects of real threads (exit, channel hand-off) may lag by microseconds.
        let mut enabled = Self::enabled(st);
        let all_app_done = st.threads.iter().filter(|t| t.app).all(|t| t.status == Status::Finished);
        if all_app_done {
            st.outcome = Some(Outcome::Completed);
            self.release_all(st);
            return;
        }
        if enabled.is_empty() {
            let deadline = Instant::now() + Duration::from_millis(200);
            // on a loaded machine a thread that has left the scheduler (finished, or between
            // two hooks in free code) may simply not have had the CPU yet: as long as one of
            // this execution's threads is runnable, "nobody enabled" is not final
            let hard = Instant::now() + Duration::from_secs(8);
            loop {
                std::thread::sleep(Duration::from_micros(50));
                enabled = Self::enabled(st);
                if !enabled.is_empty() {
                    break;
                }
                let now = Instant::now();
                if now < deadline {
                    continue;
                }
                let me = unsafe { libc::gettid() };
                let lagging = now < hard && st.threads.iter().any(|t| t.os_tid != me && os_thread_runnable(t.os_tid));
                if !lagging {
                    break;
                }
                std::thread::sleep(Duration::from_millis(2));
            }
        }
        if enabled.is_empty() {
            let who: Vec<String> = st
                .threads
                .iter()
                .enumerate()
                .filter(|(_, t)| t.status != Status::Finished && t.status != Status::NotStarted)
                .map(|(i, t)| format!("T{i}({}) blocked at {}{:?}", t.role, t.last_point, t.last_args))
                .collect();
            st.outcome = Some(Outcome::Deadlock(who.join("; ")));
            self.release_all(st);
            return;
        }
        if st.trace.len() >= st.horizon {
            let who: Vec<String> = st.threads.iter().enumerate().map(|(i, t)| format!("T{i}({}) at {}", t.role, t.last_point)).collect();
            st.outcome = Some(Outcome::Horizon(who.join("; ")));
            self.release_all(st);
            return;
        }
        if let Some(f) = &st.on_decision {
            if let Some(v) = f() {
                st.monitor.push(v);
            }
        }
        // canonical default
        let prev = st.prev;
        let prev_enabled = prev.is_some_and(|p| enabled.contains(&p));
        let prev_yielded = prev.is_some_and(|p| st.threads[p].status == Status::Yielded);
        let lrs = |cands: &[usize], st: &State| -> usize {
            *cands.iter().min_by_key(|&&i| (st.threads[i].last_scheduled, i)).unwrap()
        };
        let default = if prev_enabled && !prev_yielded {
            prev.unwrap()
        } else if prev_enabled && prev_yielded {
            let others: Vec<usize> = enabled.iter().copied().filter(|&i| Some(i) != prev).collect();
            if others.is_empty() {
                prev.unwrap()
            } else {
                lrs(&others, st)
            }
        } else {
            lrs(&enabled, st)
        };
        let alt_cost = if prev_enabled { 1 } else { 0 };
        let idx = st.trace.len();
        let chosen = if idx < st.prefix.len() {
            let want = st.prefix[idx];
            if !enabled.contains(&want) {
                st.outcome = Some(Outcome::Diverged(format!(
                    "replay diverged at decision {idx}: thread T{want} is not enabled (enabled {enabled:?})"
                )));
                self.release_all(st);
                return;
            }
            want
        } else {
            default
        };
        let at = enabled.iter().map(|&i| (i, st.threads[i].last_point)).collect();
        st.trace.push(Decision { enabled, chosen, default, alt_cost, at });
        self.decisions_total.fetch_add(1, Ordering::Relaxed);
        st.step += 1;
        st.threads[chosen].last_scheduled = st.step;
        st.threads[chosen].status = Status::Running;
        st.threads[chosen].pred = None;
        st.prev = Some(chosen);
        st.token = Some(chosen);
        self.cv.notify_all();
    }

    fn release_all(&self, st: &mut State) {
        st.controlled = false;
        st.token = None;
        for t in st.threads.iter_mut() {
            if t.status != Status::Finished && t.status != Status::NotStarted {
                t.status = Status::Running;
                t.pred = None;
            }
        }
        self.cv.notify_all();
    }

    /// Park the calling thread with `status` and wait until it is scheduled again.
    fn park(&self, tid: usize, status: Status, name: &'static str, args: (u64, u64), pred: Option<Pred>) {
        let mut st = self.m.lock();
        if !st.controlled {
            return;
        }
        let had_token = st.token == Some(tid);
        {
            let t = &mut st.threads[tid];
            t.status = status;
            t.last_point = name;
            t.last_args = args;
            t.pred = pred;
        }
        if had_token {
            self.schedule_next(&mut st);
        } else {
            // a background thread arriving at its first hook after control began
            self.cv.notify_all();
        }
        while st.controlled && st.token != Some(tid) {
            self.cv.wait(&mut st);
        }
        let t = &mut st.threads[tid];
        t.status = Status::Running;
        t.pred = None;
    }

    pub fn finish_thread(&self) {
        self.finish(false)
    }

    /// `background`: the thread is one of the store's own (worker, coordinator, sweeper). The
    /// store may join it, and a join completes only after the thread has left the process:
    /// the next decision is taken by the harness thread (`wait_done`) once the kernel thread
    /// is gone, so that "the join can proceed" is a deterministic function of the history.
    fn finish(&self, background: bool) {
        let Some(tid) = Self::my_tid() else { return };
        let mut st = self.m.lock();
        st.threads[tid].status = Status::Finished;
        st.threads[tid].last_point = "finished";
        st.pins.retain(|p| p.0 != tid);
        let had_token = st.token == Some(tid);
        if st.controlled && had_token {
            let all_app_done = st.threads.iter().filter(|t| t.app).all(|t| t.status == Status::Finished);
            if background && !all_app_done {
                st.token = None;
                st.last_progress = Instant::now();
                st.deferred = true;
                st.exiting = st.threads[tid].os_tid;
                self.cv.notify_all();
            } else {
                self.schedule_next(&mut st);
            }
        } else {
            self.cv.notify_all();
        }
        MY_TID.with(|c| c.set(None));
    }

    /// Begin the controlled phase: wait until every registered thread other than the
    /// application threads (which are parked at "start") is parked in a hook, then
    /// make the first decision.
    pub fn begin(&self, expected_threads: usize, timeout: Duration) -> Result<(), String> {
        let deadline = Instant::now() + timeout;
        let mut st = self.m.lock();
        st.controlled = true;
        self.cv.notify_all();
        loop {
            let ready = st.threads.len() >= expected_threads && st.threads.iter().all(|t| t.status != Status::Running && t.status != Status::NotStarted);
            if ready {
                break;
            }
            if Instant::now() > deadline {
                let who: Vec<String> =
                    st.threads.iter().enumerate().map(|(i, t)| format!("T{i}({}) {:?} at {}", t.role, t.status, t.last_point)).collect();
                st.controlled = false;
                self.cv.notify_all();
                return Err(format!("threads did not all park before the controlled phase ({} registered, {} expected): {}", st.threads.len(), expected_threads, who.join("; ")));
            }
            self.cv.wait_for(&mut st, Duration::from_millis(1));
        }
        self.schedule_next(&mut st);
        Ok(())
    }

    /// Wait for the execution to end. Returns the outcome.
    pub fn wait_done(&self, stall: Duration) -> Outcome {
        let mut st = self.m.lock();
        loop {
            if let Some(o) = st.outcome.clone() {
                return o;
            }
            if st.deferred && st.token.is_none() {
                let gone = st.exiting <= 0 || !std::path::Path::new(&format!("/proc/self/task/{}", st.exiting)).exists();
                if gone || st.last_progress.elapsed() > Duration::from_secs(10) {
                    st.deferred = false;
                    self.schedule_next(&mut st);
                } else {
                    self.cv.wait_for(&mut st, Duration::from_micros(200));
                }
                continue;
            }
            if st.last_progress.elapsed() > stall {
                // A token holder that is runnable but not getting the CPU (a loaded machine) is
                // starved, not stuck: only a thread blocked in the kernel counts, unless the
                // silence lasts for a minute.
                let starved = st.token.is_some_and(|t| os_thread_runnable(st.threads[t].os_tid));
                if starved && st.last_progress.elapsed() < Duration::from_secs(60) {
                    self.cv.wait_for(&mut st, Duration::from_millis(20));
                    continue;
                }
                let running = st.token.map(|t| format!("T{t}({}) last seen at {}", st.threads[t].role, st.threads[t].last_point)).unwrap_or_else(|| "nobody".into());
                let o = Outcome::Stuck(format!("no scheduling progress for {:?}; token holder: {running}", stall));
                st.outcome = Some(o.clone());
                self.release_all(&mut st);
                return o;
            }
            self.cv.wait_for(&mut st, Duration::from_millis(5));
        }
    }

    pub fn stop(&self) {
        self.stop_polling.store(true, Ordering::SeqCst);
        let mut st = self.m.lock();
        if st.controlled {
            self.release_all(&mut st);
        }
    }

    pub fn is_controlled(&self) -> bool {
        self.m.lock().controlled
    }
}

impl SchedHooks for Sched {
    fn point(&self, name: &'static str, a: u64, b: u64) {
        if let Some(tid) = Self::my_tid() {
            self.park(tid, Status::AtPoint, name, (a, b), None);
        }
    }

    fn wait_until(&self, name: &'static str, ready: &dyn Fn() -> bool) {
        let Some(tid) = Self::my_tid() else { return };
        // Uncontended: the call that follows completes at once and no other thread can
        // run in between, so this is not a decision point.
        if ready() && self.is_controlled() {
            return;
        }
        loop {
            if self.is_controlled() {
                // SAFETY: see `enabled`; the pointer is removed in `park` before it returns.
                let p: *const (dyn Fn() -> bool) = ready;
                let p: *const (dyn Fn() -> bool + 'static) = unsafe { std::mem::transmute(p) };
                self.park(tid, Status::Waiting, name, (0, 0), Some(Pred(p)));
            }
            if ready() || self.stop_polling.load(Ordering::Relaxed) {
                return;
            }
            if !self.is_controlled() {
                // free mode: poll, so that the thread never blocks in the OS for long and
                // can be parked as soon as the controlled phase begins
                std::thread::sleep(Duration::from_micros(50));
            }
        }
    }

    fn yield_now(&self, name: &'static str) -> bool {
        if let Some(tid) = Self::my_tid() {
            self.park(tid, Status::Yielded, name, (0, 0), None);
        }
        false
    }

    fn adopted(&self, role: &'static str) {
        self.register(role, false);
    }

    fn retired(&self, _role: &'static str) {
        self.finish(true);
    }

    fn tick(&self, shutdown: &dyn Fn() -> bool) -> Tick {
        if Self::my_tid().is_none() {
            return Tick::Skip;
        }
        // wait (visibly) until a tick is granted or the store shuts down
        let pred = || shutdown() || self.tick_granted.load(Ordering::SeqCst) > 0;
        self.wait_until("tick", &pred);
        if shutdown() {
            return Tick::Skip;
        }
        let mut g = self.tick_granted.load(Ordering::SeqCst);
        while g > 0 {
            match self.tick_granted.compare_exchange(g, g - 1, Ordering::SeqCst, Ordering::SeqCst) {
                Ok(_) => return Tick::Run,
                Err(x) => g = x,
            }
        }
        Tick::Skip
    }

    fn note(&self, name: &'static str, a: u64, b: u64) {
        let Some(tid) = Self::my_tid() else { return };
        let mut st = self.m.lock();
        match name {
            "rd_pin" => st.pins.push((tid, a, b)),
            "rd_release" => {
                if let Some(i) = st.pins.iter().position(|p| p.0 == tid && p.1 == a) {
                    st.pins.remove(i);
                }
            }
            _ => {}
        }
    }

    fn device_write(&self, off: u64, len: usize) {
        let tid = Self::my_tid();
        let mut st = self.m.lock();
        let first = off / 4096;
        let last = (off + len as u64 - 1) / 4096;
        let hits: Vec<(usize, u64, u64)> =
            st.pins.iter().copied().filter(|(t, s, n)| Some(*t) != tid && first < s + n && *s <= last).collect();
        for (t, s, n) in hits {
            let role = st.threads.get(t).map(|x| x.role).unwrap_or("?");
            st.monitor.push(format!(
                "C08: device blocks {first}..={last} were overwritten while T{t}({role}) still held extent {s}+{n} for reading"
            ));
        }
    }
}

/// Sum of deviation costs of the decisions before index `i`.
pub fn deviations_before(trace: &[Decision], i: usize) -> u32 {
    trace[..i].iter().map(|d| if d.chosen != d.default { d.alt_cost } else { 0 }).sum()
}

/// Alternatives reachable from `trace` (which was produced with `prefix_len` fixed
/// choices) within the deviation bound: new prefixes to run.
pub fn alternatives(trace: &[Decision], prefix_len: usize, bound: u32) -> Vec<Vec<usize>> {
    let mut out = Vec::new();
    for i in prefix_len..trace.len() {
        let d = &trace[i];
        if d.enabled.len() < 2 {
            continue;
        }
        let before = deviations_before(trace, i);
        for &alt in &d.enabled {
            if alt == d.chosen {
                continue;
            }
            let cost = before + if alt == d.default { 0 } else { d.alt_cost };
            if cost > bound {
                continue;
            }
            let mut p: Vec<usize> = trace[..i].iter().map(|x| x.chosen).collect();
            p.push(alt);
            out.push(p);
        }
    }
    out
}

/// Is the kernel thread in state R (running or waiting for a CPU)?
fn os_thread_runnable(os_tid: i32) -> bool {
    if os_tid <= 0 {
        return false;
    }
    let Ok(stat) = std::fs::read_to_string(format!("/proc/self/task/{os_tid}/stat")) else { return false };
    // "<pid> (<comm>) <state> ..." — the command may contain spaces and parentheses
    stat.rfind(')').and_then(|i| stat[i + 1..].split_whitespace().next().map(|s| s == "R")).unwrap_or(false)
}
