//! Controlled scheduler (deviation-bounded exploration of thread interleavings).

use std::cell::Cell;

thread_local! {
    static LAST_TS: Cell<u64> = const { Cell::new(0) };
}

pub fn note_thread_timestamp(ts: u64) {
    LAST_TS.with(|c| c.set(ts));
}

/// Timestamp most recently resolved by a store call on this thread (0 = none since reset).
pub fn take_thread_timestamp() -> u64 {
    LAST_TS.with(|c| c.replace(0))
}
