//! Alphabets and suites (configuration × alphabet × depth) for the SEQ engine.

use crate::seq::Suite;
use crate::sut::{Cfg, Op, Tables};

pub const FUT: u64 = 2_000_000_000_000_000_000; // explicit timestamp far ahead of the virtual clock
pub const TS_A: u64 = 5;
pub const TS_B: u64 = 20;

pub fn big_value(len: usize, tag: u8) -> Vec<u8> {
    // Generation-tagged across all its blocks: any mixture of two values is visible.
    (0..len).map(|i| tag ^ ((i / 7) as u8).wrapping_mul(31) ^ (i as u8)).collect()
}

pub const V_X: u8 = 0;
pub const V_Y: u8 = 1;
pub const V_CNT: u8 = 2;
pub const V_JSON: u8 = 3;
pub const V_BIG2: u8 = 4;
pub const V_BIG3: u8 = 5;
pub const V_EMPTY: u8 = 6;
pub const V_HUGE: u8 = 7;

pub fn std_tables() -> Tables {
    Tables {
        keys: vec![b"a".to_vec(), b"b".to_vec()],
        values: vec![
            b"x".to_vec(),
            b"y".to_vec(),
            7i64.to_le_bytes().to_vec(),
            br#"{"a":1}"#.to_vec(),
            big_value(5000, 0x11),
            big_value(9000, 0x22),
        ],
        bounds: vec![b"".to_vec(), b"a".to_vec(), b"b".to_vec(), vec![0xff; 8]],
        patches: vec![
            br#"[{"op":"replace","path":"/a","value":2}]"#.to_vec(),
            br#"[{"op":"test","path":"/a","value":99}]"#.to_vec(),
            b"not json".to_vec(),
            br#"[{"op":"add","path":"/b","value":"x"}]"#.to_vec(),
        ],
    }
}

fn ins(k: u8, v: u8) -> Op {
    Op::Insert { k, v, ts: 0, ttl: 0, bytes: false }
}
fn ins_ts(k: u8, v: u8, ts: u64) -> Op {
    Op::Insert { k, v, ts, ttl: 0, bytes: false }
}
fn ins_ttl(k: u8, v: u8, ttl: u64, ts: u64) -> Op {
    Op::Insert { k, v, ts, ttl, bytes: false }
}

/// Full core alphabet on key `a`, a reduced one on key `b`.
pub fn core_ops() -> Vec<Op> {
    let a = 0u8;
    let b = 1u8;
    vec![
        Op::Get(a),
        ins(a, V_X),
        Op::Delete { k: a, ts: 0 },
        ins(a, V_Y),
        ins(a, V_CNT),
        ins(a, V_JSON),
        Op::Insert { k: a, v: V_Y, ts: 0, ttl: 0, bytes: true },
        ins_ts(a, V_X, TS_A),
        ins_ts(a, V_Y, TS_B),
        ins_ts(a, V_X, TS_B),
        ins_ts(a, V_X, FUT),
        ins_ts(a, V_Y, u64::MAX),
        Op::Insert { k: a, v: V_X, ts: TS_B, ttl: 0, bytes: true },
        Op::Delete { k: a, ts: TS_B },
        Op::Delete { k: a, ts: FUT },
        Op::Cas { k: a, expect: V_X, new: V_Y, ts: 0, ttl: 0 },
        Op::Cas { k: a, expect: V_Y, new: V_X, ts: TS_B, ttl: 0 },
        Op::Cas { k: a, expect: V_Y, new: V_CNT, ts: 0, ttl: 0 },
        Op::Incr { k: a, delta: 1, ts: 0, ttl: 0 },
        Op::Incr { k: a, delta: -2, ts: FUT, ttl: 0 },
        Op::Incr { k: a, delta: 3, ts: TS_B, ttl: 0 },
        Op::Ifa { k: a, v: V_X },
        Op::Ifa { k: a, v: V_JSON },
        Op::Patch { k: a, p: 0, ts: 0 },
        Op::Patch { k: a, p: 1, ts: 0 },
        Op::Patch { k: a, p: 2, ts: 0 },
        Op::Patch { k: a, p: 3, ts: TS_B },
        Op::GetBytes(a),
        Op::GetSize(a),
        Op::Contains(a),
        ins(b, V_X),
        Op::Delete { k: b, ts: 0 },
        Op::Get(b),
        Op::Incr { k: b, delta: 5, ts: 0, ttl: 0 },
        Op::Len,
        Op::Range { lo: 0, hi: 3, limit: 1 },
        Op::Range { lo: 1, hi: 2, limit: 10 },
        Op::Range { lo: 2, hi: 1, limit: 10 },
    ]
}

/// Writes / deletes / reads that matter for storage tiers.
pub fn tier_ops(multi_block: bool) -> Vec<Op> {
    let a = 0u8;
    let b = 1u8;
    let mut v = vec![
        Op::Get(a),
        ins(a, V_X),
        ins(a, V_Y),
        Op::Delete { k: a, ts: 0 },
        ins_ts(a, V_X, TS_B),
        ins_ts(a, V_Y, FUT),
        Op::Delete { k: a, ts: TS_B },
        ins(a, V_CNT),
        ins(a, V_JSON),
        Op::Cas { k: a, expect: V_X, new: V_Y, ts: 0, ttl: 0 },
        Op::Cas { k: a, expect: V_Y, new: V_X, ts: TS_B, ttl: 0 },
        Op::Incr { k: a, delta: 1, ts: 0, ttl: 0 },
        Op::Ifa { k: a, v: V_Y },
        Op::Patch { k: a, p: 0, ts: 0 },
        Op::GetBytes(a),
        ins(b, V_X),
        Op::Delete { k: b, ts: 0 },
        Op::Range { lo: 0, hi: 3, limit: 10 },
        Op::Flush,
        Op::Reopen,
    ];
    if multi_block {
        v.push(ins(a, V_BIG2));
        v.push(ins(b, V_BIG3));
        v.push(Op::Cas { k: a, expect: V_BIG2, new: V_X, ts: 0, ttl: 0 });
    }
    v
}

pub fn ttl_ops(persistent: bool) -> Vec<Op> {
    let a = 0u8;
    let b = 1u8;
    let mut v = vec![
        Op::Get(a),
        ins_ttl(a, V_X, 1, 0),
        ins_ttl(a, V_Y, 1000, 0),
        ins_ttl(a, V_CNT, 1, 0),
        ins_ttl(a, V_X, 1, TS_A), // born expired
        Op::Insert { k: a, v: V_Y, ts: 0, ttl: 1, bytes: true },
        ins(a, V_X),
        ins(a, V_JSON),
        Op::UpdateTtl { k: a, secs: 1 },
        Op::UpdateTtl { k: a, secs: 1000 },
        Op::Persist(a),
        Op::GetTtl(a),
        Op::Delete { k: a, ts: 0 },
        Op::Cas { k: a, expect: V_X, new: V_Y, ts: 0, ttl: 1 },
        Op::Cas { k: a, expect: V_X, new: V_Y, ts: 0, ttl: 0 },
        Op::Cas { k: a, expect: V_X, new: V_X, ts: 0, ttl: 0 }, // same bytes: still a write (drops the TTL)
        Op::Incr { k: a, delta: 1, ts: 0, ttl: 1 },
        Op::Incr { k: a, delta: 1, ts: 0, ttl: 0 },
        Op::Incr { k: a, delta: 1, ts: TS_B, ttl: 0 },
        Op::Ifa { k: a, v: V_Y },
        Op::Patch { k: a, p: 0, ts: 0 },
        Op::GetSize(a),
        Op::Contains(a),
        ins_ttl(b, V_X, 1, 0),
        Op::Get(b),
        Op::Len,
        Op::Range { lo: 0, hi: 3, limit: 1 },
        Op::Range { lo: 0, hi: 3, limit: 10 },
        Op::Advance(0),
        Op::Advance(1),
        Op::Advance(2),
        Op::Advance(3),
        Op::Sweep,
    ];
    if persistent {
        v.push(Op::Flush);
        v.push(Op::Reopen);
    }
    v
}

pub fn limit_ops() -> Vec<Op> {
    let a = 0u8;
    let b = 1u8;
    vec![
        ins(a, V_X),
        ins(a, V_BIG2),
        ins_ts(a, V_BIG2, FUT),
        ins_ts(a, V_X, TS_B),
        Op::Insert { k: a, v: V_BIG2, ts: FUT, ttl: 0, bytes: true },
        ins(b, V_X),
        ins(b, V_JSON),
        Op::Cas { k: a, expect: V_X, new: V_BIG2, ts: FUT, ttl: 0 },
        Op::Cas { k: a, expect: V_X, new: V_Y, ts: 0, ttl: 0 },
        Op::Incr { k: b, delta: 1, ts: FUT, ttl: 0 },
        Op::Incr { k: a, delta: 1, ts: 0, ttl: 0 },
        Op::Ifa { k: b, v: V_BIG2 },
        Op::Ifa { k: b, v: V_X },
        Op::Patch { k: b, p: 3, ts: FUT },
        Op::Delete { k: a, ts: 0 },
        Op::Delete { k: b, ts: 0 },
        Op::Get(a),
        Op::Get(b),
        Op::Len,
    ]
}

/// Error probes: invalid keys and values.
pub fn error_tables(cfg: &Cfg) -> Tables {
    let mut t = std_tables();
    t.keys = vec![
        b"a".to_vec(),
        Vec::new(),                    // empty
        vec![b'k'; 100 * 1024 + 1],    // larger than any key
        vec![b'k'; cfg.max_key()],     // largest creatable key
        vec![b'k'; cfg.max_key() + 1], // one more: creatable only in memory
    ];
    t.values.push(Vec::new()); // V_EMPTY
    t.values.push(vec![0x5a; 4 * 1024 * 1024 + 1]); // V_HUGE
    t.bounds = vec![b"".to_vec(), vec![b'z'; 100 * 1024 + 1], vec![0xff; 8]];
    t
}

pub fn error_ops() -> Vec<Op> {
    let mut v = vec![ins(0, V_X), ins(0, V_EMPTY), ins(0, V_HUGE), Op::Cas { k: 0, expect: V_X, new: V_EMPTY, ts: 0, ttl: 0 }];
    for k in 1..5u8 {
        v.push(ins(k, V_X));
        v.push(Op::Insert { k, v: V_X, ts: 0, ttl: 0, bytes: true });
        v.push(Op::Get(k));
        v.push(Op::GetBytes(k));
        v.push(Op::GetSize(k));
        v.push(Op::Delete { k, ts: 0 });
        v.push(Op::Cas { k, expect: V_X, new: V_Y, ts: 0, ttl: 0 });
        v.push(Op::Incr { k, delta: 1, ts: 0, ttl: 0 });
        v.push(Op::Ifa { k, v: V_X });
        v.push(Op::Patch { k, p: 0, ts: 0 });
        v.push(Op::Contains(k));
    }
    v.push(Op::Range { lo: 0, hi: 1, limit: 5 });
    v.push(Op::Range { lo: 0, hi: 2, limit: 5 });
    v.push(Op::Len);
    v
}

pub fn suite(name: &str, cfg: Cfg, tables: Tables, ops: Vec<Op>, depth: usize) -> Suite {
    Suite {
        name: name.to_string(),
        cfg,
        tables,
        ops,
        depth,
        shadow: None,
        log_io: false,
        uncapped_levels: 2,
        max_heavy: 0,
        readback: true,
    }
}

pub fn disk(format: u32, cache: bool, ttl: bool) -> Cfg {
    let mut c = Cfg::persistent(24);
    c.format = format;
    c.cache = cache;
    c.ttl = ttl;
    c
}

/// Values whose record image ends exactly at (or within 8 bytes of) a block
/// boundary under the v1 header (4+2+1+16 = 23 bytes for a one-byte key): the v1
/// and v2/v3 extent lengths differ for them.
pub fn edge_tables() -> Tables {
    let mut t = std_tables();
    t.values = vec![
        b"x".to_vec(),
        big_value(4096 - 23, 0x31),     // exactly one block in v1, two in v2/v3
        big_value(4096 - 23 - 8, 0x32), // exactly one block in v2/v3
        big_value(2 * 4096 - 23, 0x33), // exactly two blocks in v1
        big_value(4096 - 23 + 1, 0x34), // two blocks in every format
    ];
    t
}

pub fn edge_ops() -> Vec<Op> {
    let a = 0u8;
    let b = 1u8;
    vec![
        ins(a, 1),
        ins(a, 2),
        ins(a, 3),
        ins(a, 4),
        ins(b, 0),
        ins(b, 1),
        Op::Delete { k: a, ts: 0 },
        Op::Delete { k: b, ts: 0 },
        Op::Get(a),
        Op::Get(b),
        Op::Flush,
        Op::Reopen,
    ]
}

/// Focused single-key alphabet for the storage tiers (resident / buffered / on
/// disk / cached / deferred TTL rewrite), deep.
pub fn tier_focus_ops(ttl: bool) -> Vec<Op> {
    let a = 0u8;
    let mut v = vec![
        ins(a, V_X),
        ins(a, V_Y),
        Op::Delete { k: a, ts: 0 },
        Op::Get(a),
        Op::Flush,
        Op::Reopen,
        Op::Cas { k: a, expect: V_X, new: V_Y, ts: 0, ttl: 0 },
        Op::Incr { k: a, delta: 1, ts: 0, ttl: 0 },
        ins_ts(a, V_X, TS_B),
        Op::Tick,
    ];
    if ttl {
        v.push(Op::UpdateTtl { k: a, secs: 1000 });
        v.push(Op::Persist(a));
        v.push(ins_ttl(a, V_X, 1, 0));
        v.push(Op::Advance(3));
    }
    v
}

pub fn limit_disk_ops() -> Vec<Op> {
    let a = 0u8;
    let b = 1u8;
    vec![
        ins(a, V_X),
        ins(a, V_BIG2),
        Op::Insert { k: a, v: V_BIG2, ts: 0, ttl: 0, bytes: true },
        ins(b, V_BIG2),
        ins(b, V_X),
        Op::Cas { k: a, expect: V_X, new: V_BIG2, ts: 0, ttl: 0 },
        Op::Delete { k: a, ts: 0 },
        Op::Delete { k: b, ts: 0 },
        Op::Get(a),
        Op::Flush,
        Op::Reopen,
    ]
}

/// Timestamp-focused alphabet: automatic and explicit (past, future, equal, extreme)
/// timestamps over every write kind, including calls that fail while carrying a
/// large explicit timestamp.
pub fn ts_tables() -> Tables {
    let mut t = std_tables();
    t.values.truncate(4);
    t.values.push(Vec::new()); // index 4: empty value -> InvalidValueSize
    t
}

/// A key that shares its version-clock shard with key `a` under the fixed hasher seeds.
pub fn colliding_key() -> Vec<u8> {
    static K: std::sync::OnceLock<Vec<u8>> = std::sync::OnceLock::new();
    K.get_or_init(|| {
        let mut cfg = Cfg::memory();
        cfg.same_shard = true;
        let sut = crate::sut::Sut::create(cfg, "collide").expect("store for the key search");
        let want = sut.store().verif_clock_shard_of(b"a");
        let k = (0..100_000u32).map(|i| format!("b{i}").into_bytes()).find(|k| sut.store().verif_clock_shard_of(k) == want).expect("a colliding key");
        drop(sut);
        crate::session::Session::uninstall();
        k
    })
    .clone()
}

pub fn oneshard_ops(persistent: bool) -> Vec<Op> {
    let a = 0u8;
    let b = 1u8;
    let mut v = vec![
        ins(a, V_X),
        ins_ts(a, V_Y, u64::MAX),
        ins_ts(a, V_X, FUT + 5),
        Op::Delete { k: a, ts: 0 },
        ins(b, V_X),
        ins_ts(b, V_X, FUT + 2),
        Op::Delete { k: b, ts: 0 },
        Op::Incr { k: b, delta: 1, ts: 0, ttl: 0 },
        Op::Cas { k: b, expect: V_X, new: V_Y, ts: 0, ttl: 0 },
        Op::UpdateTtl { k: b, secs: 1000 },
    ];
    if persistent {
        v.push(Op::Flush);
        v.push(Op::Reopen);
    }
    v
}

pub fn ts_ops(persistent: bool, ttl: bool) -> Vec<Op> {
    let a = 0u8;
    let b = 1u8;
    let mut v = vec![
        ins(a, V_X),
        ins_ts(a, V_Y, TS_B),
        ins_ts(a, V_X, FUT),
        ins_ts(a, V_X, FUT + 5),
        ins_ts(a, V_Y, u64::MAX),
        Op::Insert { k: a, v: 4, ts: FUT + 7, ttl: 0, bytes: false }, // fails: empty value
        Op::Insert { k: a, v: V_CNT, ts: 0, ttl: 0, bytes: true },
        Op::Delete { k: a, ts: 0 },
        Op::Delete { k: a, ts: FUT + 3 },
        Op::Cas { k: a, expect: V_X, new: V_Y, ts: 0, ttl: 0 },
        Op::Cas { k: a, expect: V_JSON, new: V_Y, ts: FUT + 9, ttl: 0 }, // mismatch: must not consume
        Op::Cas { k: a, expect: V_X, new: V_X, ts: FUT + 5, ttl: 0 }, // same bytes: still a write with a timestamp
        Op::Incr { k: a, delta: 1, ts: 0, ttl: 0 },
        Op::Incr { k: a, delta: 1, ts: FUT + 1, ttl: 0 },
        Op::Ifa { k: a, v: V_JSON },
        Op::Patch { k: a, p: 0, ts: 0 },
        Op::Patch { k: a, p: 1, ts: FUT + 11 }, // failing test op with a huge timestamp
        ins(b, V_X),
        ins_ts(b, V_X, FUT + 2),
        Op::Delete { k: b, ts: 0 },
    ];
    if ttl {
        v.push(Op::UpdateTtl { k: a, secs: 1000 });
        v.push(ins_ttl(a, V_X, 1000, 0));
    }
    if persistent {
        v.push(Op::Flush);
        v.push(Op::Reopen);
    }
    v
}

/// Boundary arguments of every API variant (memory, TTL on): zero / huge TTLs,
/// saturating deltas, extreme explicit timestamps combined with TTLs.
pub fn wide_ops() -> Vec<Op> {
    let a = 0u8;
    vec![
        Op::Get(a),
        ins(a, V_X),
        ins(a, V_CNT),
        Op::Insert { k: a, v: V_Y, ts: 0, ttl: u64::MAX, bytes: false },
        Op::Insert { k: a, v: V_Y, ts: u64::MAX, ttl: 5, bytes: false },
        Op::Insert { k: a, v: V_X, ts: u64::MAX - 1, ttl: 1, bytes: true },
        Op::Insert { k: a, v: V_X, ts: 1, ttl: 1, bytes: true },
        Op::Insert { k: a, v: V_Y, ts: FUT, ttl: 1000, bytes: false },
        Op::Cas { k: a, expect: V_X, new: V_Y, ts: u64::MAX, ttl: 0 },
        Op::Cas { k: a, expect: V_X, new: V_CNT, ts: FUT, ttl: u64::MAX },
        Op::Cas { k: a, expect: V_Y, new: V_X, ts: 1, ttl: 1 },
        Op::Incr { k: a, delta: i64::MAX, ts: 0, ttl: 0 },
        Op::Incr { k: a, delta: i64::MIN, ts: 0, ttl: 0 },
        Op::Incr { k: a, delta: 1, ts: u64::MAX, ttl: 1 },
        Op::Incr { k: a, delta: -1, ts: 0, ttl: u64::MAX },
        Op::Incr { k: a, delta: 1, ts: 1, ttl: 0 },
        Op::UpdateTtl { k: a, secs: u64::MAX },
        Op::UpdateTtl { k: a, secs: 1 },
        Op::Persist(a),
        Op::GetTtl(a),
        Op::Delete { k: a, ts: u64::MAX },
        Op::Delete { k: a, ts: 1 },
        Op::Delete { k: a, ts: 0 },
        Op::Patch { k: a, p: 0, ts: u64::MAX },
        Op::Ifa { k: a, v: V_CNT },
        Op::Advance(0),
        Op::Advance(3),
        Op::Sweep,
        Op::Range { lo: 0, hi: 3, limit: usize::MAX },
        Op::Len,
    ]
}

pub fn nottl_stamped_ops(persistent: bool) -> Vec<Op> {
    let a = 0u8;
    let b = 1u8;
    let mut v = vec![
        ins(a, V_X),
        Op::Cas { k: a, expect: V_X, new: V_Y, ts: 0, ttl: 1 },
        Op::Incr { k: b, delta: 1, ts: 0, ttl: 1 },
        ins_ttl(b, V_X, 1, 0), // refused: TTL not enabled
        Op::Advance(0),
        Op::Get(a),
        Op::Range { lo: 0, hi: 3, limit: usize::MAX },
        Op::Range { lo: 0, hi: 3, limit: 1 },
        Op::Delete { k: a, ts: 0 },
    ];
    if persistent {
        v.push(Op::Flush);
        v.push(Op::Reopen);
    }
    v
}

pub fn ttl_wrap_ops(persistent: bool) -> Vec<Op> {
    let a = 0u8;
    const EDGE: u64 = u64::MAX / 1_000_000_000; // largest TTL whose nanoseconds fit
    let mut v = vec![
        ins_ttl(a, V_X, EDGE, 0),
        ins_ttl(a, V_Y, EDGE + 1, 0),
        ins_ttl(a, V_X, 1 << 55, 0),
        ins_ttl(a, V_CNT, (1 << 63) + 1, 0),
        Op::Insert { k: a, v: V_Y, ts: 0, ttl: 1 << 62, bytes: true },
        Op::UpdateTtl { k: a, secs: 1 << 55 },
        Op::UpdateTtl { k: a, secs: EDGE + 1 },
        Op::Cas { k: a, expect: V_X, new: V_Y, ts: 0, ttl: 1 << 60 },
        Op::Incr { k: a, delta: 1, ts: 0, ttl: (1 << 55) + 1 },
        Op::Get(a),
        Op::GetTtl(a),
        Op::Advance(0),
        Op::Sweep,
        Op::Range { lo: 0, hi: 3, limit: usize::MAX },
    ];
    if persistent {
        v.push(Op::Flush);
        v.push(Op::Reopen);
    }
    v
}

/// All sequential suites: (suite with its quick depth, thorough depth).
pub fn all_suites(thorough: bool) -> Vec<Suite> {
    let d = |q: usize, t: usize| if thorough { t } else { q };
    let overhead = std::mem::size_of::<feoxdb::core::record::Record>();
    let mut v = Vec::new();
    v.push(suite("mem-core", Cfg::memory(), std_tables(), core_ops(), d(5, 6)));
    let mut mt = Cfg::memory();
    mt.ttl = true;
    v.push(suite("mem-ttl", mt, std_tables(), ttl_ops(false), d(5, 6)));
    v.push(suite("mem-wide", mt, std_tables(), wide_ops(), d(4, 5)));
    // a store WITHOUT TTL support holding records that carry an expiry stamp (compare-and-swap and
    // increment stamp one regardless): such records are permanent for every call, scans included
    v.push(suite("mem-nottl-stamped", Cfg::memory(), std_tables(), nottl_stamped_ops(false), d(5, 6)));
    v.push(suite("disk-nottl-stamped-v3", disk(3, true, false), std_tables(), nottl_stamped_ops(true), d(4, 5)));
    // time-to-live values around the points where seconds x 10^9 leaves 64 bits (the documented
    // behaviour is saturation: such a key never expires)
    v.push(suite("mem-ttl-wrap", mt, std_tables(), ttl_wrap_ops(false), d(3, 4)));
    v.push(suite("disk-ttl-wrap-v3", disk(3, true, true), std_tables(), ttl_wrap_ops(true), d(3, 4)));
    // limited scans over a mix of live, expired-but-unswept and deleted keys
    v.push(suite(
        "mem-ttl-range",
        mt,
        std_tables(),
        vec![
            ins_ttl(0, V_X, 1, 0),
            ins(0, V_Y),
            ins(1, V_X),
            ins_ttl(1, V_Y, 1, 0),
            Op::Advance(3),
            Op::Range { lo: 0, hi: 3, limit: 1 },
            Op::Range { lo: 0, hi: 3, limit: 2 },
            Op::Range { lo: 2, hi: 3, limit: 1 },
            Op::Delete { k: 0, ts: 0 },
            Op::Sweep,
            Op::Len,
        ],
        d(5, 6),
    ));
    {
        let mut ops = wide_ops();
        ops.push(Op::Flush);
        ops.push(Op::Reopen);
        v.push(suite("disk-wide-v3", disk(3, true, true), std_tables(), ops.clone(), d(3, 4)));
        v.push(suite("disk-wide-v2", disk(2, false, true), std_tables(), ops, d(3, 4)));
    }
    let mut ml = Cfg::memory();
    // room for one small record plus one 5000-byte record, not two big ones
    ml.max_memory = Some(2 * overhead + 2 + 5000 + 16);
    v.push(suite("mem-limit", ml, std_tables(), limit_ops(), d(6, 7)));
    // keys at the limits of the length field: 65535 / 65536 (u16 boundary) and the documented maximum (100 KiB)
    {
        let mut t = std_tables();
        t.keys = vec![vec![b'A'; 65535], vec![b'B'; 65536], vec![b'C'; 100 * 1024]];
        let mut ops = Vec::new();
        for k in 0..3u8 {
            ops.push(ins(k, V_X));
            ops.push(ins(k, V_JSON));
            ops.push(Op::Delete { k, ts: 0 });
        }
        ops.push(Op::Incr { k: 1, delta: 1, ts: 0, ttl: 0 });
        ops.push(Op::Get(1));
        ops.push(Op::Len);
        let mut cfg = Cfg::memory();
        cfg.ttl = true;
        ops.push(ins_ttl(2, V_X, 1, 0));
        ops.push(Op::Advance(3));
        ops.push(Op::Sweep);
        v.push(suite("mem-bigkey", cfg, t.clone(), ops.clone(), d(3, 4)));
        // the same with a limit that admits the three records and not a byte more
        let mut lim = cfg;
        lim.max_memory = Some(3 * overhead + 65535 + 65536 + 100 * 1024 + 3 * 7);
        v.push(suite("mem-bigkey-limit", lim, t, ops, d(4, 5)));
    }
    let me = Cfg::memory();
    v.push(suite("mem-errors", me, error_tables(&me), error_ops(), d(3, 3)));
    for (format, cache) in [(3, true), (3, false), (2, true), (1, true)] {
        let cfg = disk(format, cache, false);
        let mut s = suite(
            &format!("disk-v{format}{}", if cache { "" } else { "-nocache" }),
            cfg,
            std_tables(),
            tier_ops(format == 3 && cache),
            d(3, 4),
        );
        s.max_heavy = 2;
        v.push(s);
    }
    // replacements that SHRINK a device-backed record through compare_and_swap (the one path that
    // releases the size difference itself), before and after the old bytes were offloaded (C13n)
    for format in [3, 2] {
        let ops = vec![
            ins(0, V_BIG2),
            Op::Cas { k: 0, expect: V_BIG2, new: V_X, ts: 0, ttl: 0 },
            Op::Cas { k: 0, expect: V_CNT, new: V_X, ts: 0, ttl: 0 },
            ins(0, V_CNT),
            Op::Flush,
            Op::Delete { k: 0, ts: 0 },
            Op::Len,
        ];
        let mut s = suite(&format!("disk-shrink-v{format}"), disk(format, true, false), std_tables(), ops, d(4, 5));
        s.max_heavy = 2;
        v.push(s);
    }
    for format in [3, 1] {
        let cfg = disk(format, true, true);
        let mut s = suite(&format!("disk-v{format}-ttl"), cfg, std_tables(), ttl_ops(true), d(2, 3));
        s.max_heavy = 2;
        v.push(s);
    }
    // deep, focused
    for (name, cfg) in [
        ("focus-v3", disk(3, true, false)),
        ("focus-v3-nocache", disk(3, false, false)),
        ("focus-v3-ttl", disk(3, true, true)),
        ("focus-v2-ttl", disk(2, true, true)),
        ("focus-v3-ttl-nocache", disk(3, false, true)),
    ] {
        v.push(suite(name, cfg, std_tables(), tier_focus_ops(cfg.ttl), d(6, 8)));
    }
    for format in [1, 2, 3] {
        v.push(suite(&format!("edge-v{format}"), disk(format, true, false), edge_tables(), edge_ops(), d(4, 6)));
    }
    let mut tm = Cfg::memory();
    tm.ttl = true;
    v.push(suite("ts-mem", tm, ts_tables(), ts_ops(false, true), d(5, 6)));
    // both keys on ONE version-clock shard (the default suites force distinct shards): what one key
    // does to the shared clock - a pinned maximum, a future-dated write, a restart - must not make
    // the other key's automatic writes fail
    {
        let mut t = ts_tables();
        t.keys[1] = colliding_key();
        t.bounds[2] = t.keys[1].clone();
        let mut om = Cfg::memory();
        om.ttl = true;
        om.same_shard = true;
        v.push(suite("ts-oneshard-mem", om, t.clone(), oneshard_ops(false), d(5, 6)));
        let mut od = disk(3, true, true);
        od.same_shard = true;
        let mut s = suite("ts-oneshard-v3", od, t.clone(), oneshard_ops(true), d(4, 5));
        s.max_heavy = 3;
        v.push(s);
        let mut o2 = disk(2, true, true);
        o2.same_shard = true;
        let mut s = suite("ts-oneshard-v2", o2, t, oneshard_ops(true), d(4, 5));
        s.max_heavy = 3;
        v.push(s);
    }
    let mut tl = Cfg::memory();
    tl.max_memory = Some(overhead + 1 + 8 + 4); // one small record only: creating b fails
    v.push(suite("ts-mem-limit", tl, ts_tables(), ts_ops(false, false), d(5, 6)));
    for format in [1, 2, 3] {
        let cfg = disk(format, true, format != 1);
        let mut s = suite(&format!("ts-disk-v{format}"), cfg, ts_tables(), ts_ops(true, format != 1), d(4, 5));
        s.max_heavy = 3;
        v.push(s);
    }
    let mut dl = disk(3, true, false);
    dl.max_memory = Some(2 * overhead + 2 + 5000 + 16);
    v.push(suite("disk-limit", dl, std_tables(), limit_disk_ops(), d(5, 6)));
    let de = disk(3, true, false);
    v.push(suite("disk-errors", de, error_tables(&de), error_ops(), 2));
    let d1 = disk(1, true, false);
    v.push(suite("disk-v1-errors", d1, error_tables(&d1), error_ops(), d(1, 2)));
    v
}

pub fn find_suite(name: &str, thorough: bool) -> Option<Suite> {
    all_suites(thorough)
        .into_iter()
        .chain(crash_suites(thorough))
        .chain(partition_suites(thorough))
        .chain(layout_suites(thorough))
        .chain(full_ttl_suites(thorough))
        .find(|s| s.name == name)
}

// ------------------------------------------------------------------ histories for the crash engine

pub const V_EVIL_REC: u8 = 6;
pub const V_EVIL_MARK: u8 = 7;
pub const V_EVIL_LEGACY: u8 = 8;

/// A two-block value whose second block is, byte for byte, something recovery
/// would accept if it ever looked at that block as a head: a valid record of a
/// never-written key with a huge timestamp (token bound to block `second_block`),
/// a COMPLETE retirement marker, or a legacy deletion marker.
pub fn evil_value(version: u32, kind: u8, second_block: u64) -> Vec<u8> {
    use crate::layoutref as l;
    let header = l::header_len(version, 1); // one-byte key
    let mut v = big_value(l::BLOCK - header, 0x66);
    let block = match kind {
        0 => l::encode_record(
            version,
            second_block,
            &l::Rec { key: b"zz".to_vec(), value: b"EVIL".to_vec(), timestamp: u64::MAX - 1, expiry: 0 },
        ),
        1 => l::encode_marker(second_block, 1, 1),
        _ => l::encode_legacy_marker(),
    };
    v.extend_from_slice(&block);
    v
}

pub fn crash_tables(version: u32) -> Tables {
    let mut t = std_tables();
    // first allocation on a fresh device lands on block 16, so the embedded image sits on block 17
    t.values.push(evil_value(version, 0, 17));
    t.values.push(evil_value(version, 1, 17));
    t.values.push(evil_value(version, 2, 17));
    // the same forged record for other placements of the two-block value (blocks 17+18, 18+19)
    t.values.push(evil_value(version, 0, 18));
    t.values.push(evil_value(version, 0, 19));
    t
}

pub fn crash_core_ops() -> Vec<Op> {
    let a = 0u8;
    let b = 1u8;
    vec![
        ins(a, V_X),
        ins(a, V_Y),
        ins(a, V_BIG2),
        ins(b, V_X),
        Op::Delete { k: a, ts: 0 },
        Op::Flush,
        Op::Tick,
        ins(b, V_BIG3),
        Op::Delete { k: b, ts: 0 },
        Op::Incr { k: b, delta: 1, ts: 0, ttl: 0 },
    ]
}

pub fn crash_evil_ops() -> Vec<Op> {
    let a = 0u8;
    let b = 1u8;
    vec![
        ins(a, V_EVIL_REC),
        ins(a, V_EVIL_MARK),
        ins(a, V_EVIL_LEGACY),
        ins(a, 9),
        ins(a, 10),
        ins(a, V_X),
        ins(b, V_X),
        Op::Delete { k: a, ts: 0 },
        Op::Flush,
        Op::Tick,
    ]
}

pub fn crash_ttl_ops() -> Vec<Op> {
    let a = 0u8;
    vec![
        ins(a, V_X),
        ins_ttl(a, V_Y, 1, 0),
        ins_ttl(a, V_X, 1000, 0),
        Op::UpdateTtl { k: a, secs: 1 },
        Op::Persist(a),
        Op::Delete { k: a, ts: 0 },
        Op::Flush,
        Op::Tick,
        Op::Advance(3),
        Op::Get(a),
    ]
}

/// TTL replacement landing on a *lower* block than the generation it replaces (best-fit
/// reuse of a freed hole), then a crash and a reopen after the expiry.
pub fn crash_ttl_reuse_ops() -> Vec<Op> {
    let a = 0u8;
    vec![ins(a, V_X), ins(a, V_Y), ins_ttl(a, V_X, 1, 0), Op::Flush, Op::Advance(3)]
}

pub fn crash_edge_ops() -> Vec<Op> {
    let a = 0u8;
    let b = 1u8;
    vec![ins(a, 1), ins(a, 3), ins(b, 0), ins(b, 1), ins(a, 0), Op::Delete { k: a, ts: 0 }, Op::Delete { k: b, ts: 0 }, Op::Flush, Op::Tick]
}

fn crash_suite(name: &str, cfg: Cfg, tables: Tables, ops: Vec<Op>, depth: usize) -> Suite {
    let mut s = suite(name, cfg, tables, ops, depth);
    s.log_io = true;
    s.uncapped_levels = 1;
    s.readback = false;
    s
}

pub fn small_disk(format: u32, data_blocks: u64) -> Cfg {
    let mut c = disk(format, true, false);
    c.data_blocks = data_blocks;
    c
}

pub fn crash_suites(thorough: bool) -> Vec<Suite> {
    let d = |q: usize, t: usize| if thorough { t } else { q };
    let mut v = Vec::new();
    v.push(crash_suite("crash-core-v3", disk(3, true, false), crash_tables(3), crash_core_ops(), d(4, 5)));
    v.push(crash_suite("crash-evil-v3", disk(3, true, false), crash_tables(3), crash_evil_ops(), d(4, 5)));
    v.push(crash_suite("crash-ttl-v3", disk(3, true, true), crash_tables(3), crash_ttl_ops(), d(4, 5)));
    v.push(crash_suite("crash-core-v2", disk(2, true, false), crash_tables(2), crash_core_ops(), d(3, 4)));
    // record heads filled to the last byte: the longest key a head block holds, and one byte less
    for format in [3u32, 1] {
        let cfg = disk(format, true, false);
        let mut t = std_tables();
        t.keys = vec![vec![b'M'; cfg.max_key()], vec![b'L'; cfg.max_key() - 1]];
        t.bounds = vec![b"".to_vec(), vec![b'L'; 1], vec![b'M'; 1], vec![0xff; 8]];
        let ops = vec![ins(0, V_X), ins(0, V_BIG2), ins(1, V_X), ins(1, V_Y), Op::Delete { k: 0, ts: 0 }, Op::Flush, Op::Tick];
        v.push(crash_suite(&format!("crash-maxkey-v{format}"), cfg, t, ops, d(3, 4)));
    }
    v.push(crash_suite("crash-edge-v1", disk(1, true, false), edge_tables(), crash_edge_ops(), d(4, 5)));
    v.push(crash_suite("crash-edge-v2", disk(2, true, false), edge_tables(), crash_edge_ops(), d(3, 4)));
    v.push(crash_suite("crash-small-v3", small_disk(3, 5), crash_tables(3), crash_core_ops(), d(4, 6)));
    v.push(crash_suite("crash-ttl-reuse-v3", disk(3, true, true), crash_tables(3), crash_ttl_reuse_ops(), d(7, 8)));
    v.push(crash_suite("crash-ttl-reuse-v2", disk(2, true, true), crash_tables(2), crash_ttl_reuse_ops(), d(6, 8)));
    // one key rewritten over and over: new generations land in the hole below the old one
    v.push(crash_suite("crash-reuse-v3", disk(3, true, false), std_tables(), vec![ins(0, V_X), ins(0, V_Y), Op::Delete { k: 0, ts: 0 }, Op::Flush], d(6, 8)));
    // multi-block generations that recovery itself has to retire (stale duplicate / expired winner)
    v.push(crash_suite("crash-ttl-big-v3", disk(3, true, true), std_tables(), crash_ttl_big_ops(), d(4, 6)));
    // extents that end exactly on the last block of the device, retired by recovery itself
    {
        let mut c = small_disk(3, 5);
        c.ttl = true;
        v.push(crash_suite("crash-end5-ttl-v3", c, std_tables(), crash_end_ops(), d(4, 6)));
    }
    // a device that fills up: the out-of-space path retires old extents before the pending write fits
    v.push(crash_suite("crash-full4-v3", small_disk(3, 4), std_tables(), crash_full_ops(), d(5, 7)));
    let mut u = disk(3, true, false);
    u.uring = true;
    v.push(crash_suite("crash-uring-v3", u, crash_tables(3), crash_core_ops(), d(3, 4)));
    v
}

pub fn crash_ttl_big_ops() -> Vec<Op> {
    vec![ins(0, V_BIG2), ins_ttl(0, V_BIG3, 1, 0), ins(0, V_X), Op::Flush, Op::Advance(3)]
}

/// A three-block filler, then a two-block TTL generation that lands on the last two blocks.
pub fn crash_end_ops() -> Vec<Op> {
    vec![ins(1, V_BIG3), ins_ttl(0, V_BIG2, 1, 0), Op::Flush, Op::Advance(3)]
}

/// Overwrite chains on a device the newest generation only fits on after a retirement.
pub fn crash_full_ops() -> Vec<Op> {
    vec![ins(0, V_X), ins(0, V_BIG2), ins(0, V_BIG3), ins(1, V_BIG2), Op::Delete { k: 0, ts: 0 }, Op::Flush]
}

/// Deep histories on small devices with mixed extent sizes (C05).
pub fn partition_ops() -> Vec<Op> {
    let a = 0u8;
    let b = 1u8;
    vec![
        ins(a, V_X),
        ins(a, V_BIG2),
        ins(a, V_BIG3),
        ins(b, V_X),
        ins(b, V_BIG2),
        Op::Delete { k: a, ts: 0 },
        Op::Delete { k: b, ts: 0 },
        Op::Flush,
        Op::Reopen,
    ]
}

/// TTL-only rewrites (deferred records whose bytes live in the predecessor's extent)
/// on a device that is full when the rewrite needs its block.
pub fn full_ttl_ops() -> Vec<Op> {
    vec![ins(0, V_X), ins(0, V_Y), ins(1, V_X), Op::UpdateTtl { k: 0, secs: 1000 }, Op::Flush, Op::Get(0)]
}

pub fn full_ttl_suites(thorough: bool) -> Vec<Suite> {
    let mut v = Vec::new();
    for (blocks, quick, deep) in [(2u64, 7usize, 10usize), (3, 0, 9)] {
        if !thorough && quick == 0 {
            continue;
        }
        let mut c = small_disk(3, blocks);
        c.ttl = true;
        c.cache = false;
        let mut s = crash_suite(&format!("full-ttl{blocks}-v3"), c, std_tables(), full_ttl_ops(), if thorough { deep } else { quick });
        s.log_io = false;
        // small, known cost: the quick depth is a floor, not subject to the time cap
        s.uncapped_levels = if blocks == 2 { 7 } else { 1 };
        v.push(s);
    }
    v
}

pub fn partition_suites(thorough: bool) -> Vec<Suite> {
    let d = |q: usize, t: usize| if thorough { t } else { q };
    let mut v = Vec::new();
    for blocks in [4u64, 5, 7] {
        v.push(crash_suite(&format!("part-small{blocks}-v3"), small_disk(3, blocks), std_tables(), partition_ops(), d(6, 8)));
    }
    for format in [1, 2, 3] {
        v.push(crash_suite(&format!("part-edge-v{format}"), disk(format, true, false), edge_tables(), edge_ops(), d(5, 7)));
    }
    v.push(crash_suite("part-ttl-v3", disk(3, false, true), std_tables(), tier_focus_ops(true), d(5, 6)));
    // three keys on a 4-block device: a batch in which two records have their blocks already when a
    // third finds no room (the roll-back hands several allocations back at once), then the retry
    {
        let mut t = std_tables();
        t.keys = vec![b"a".to_vec(), b"b".to_vec(), b"c".to_vec()];
        let ops = vec![ins(0, V_X), ins(1, V_X), ins(2, V_BIG3), ins(2, V_X), Op::Delete { k: 2, ts: 0 }, Op::Delete { k: 0, ts: 0 }, Op::Flush];
        v.push(crash_suite("part-three4-v3", small_disk(3, 4), t, ops, d(7, 8)));
    }
    // extents of hundreds of blocks: retired spans longer than one marker write, holes
    // reused by slightly smaller extents, restarts in between
    {
        let mut t = std_tables();
        let l1 = t.values.len() as u8;
        t.values.push(big_value(1_572_864, 0x31)); // 385 blocks
        t.values.push(big_value(1_228_800, 0x32)); // 301 blocks
        t.values.push(big_value(1_048_576 - 64, 0x33)); // 256 blocks exactly with its header
        let ops = if thorough {
            vec![ins(0, l1), ins(0, l1 + 1), ins(1, l1 + 1), ins(1, l1 + 2), ins(1, V_X), Op::Delete { k: 0, ts: 0 }, Op::Flush, Op::Reopen]
        } else {
            vec![ins(0, l1), ins(1, l1 + 1), Op::Delete { k: 0, ts: 0 }, Op::Flush, Op::Reopen]
        };
        let mut s = crash_suite("part-large-v3", small_disk(3, 2000), t, ops, d(6, 7));
        // small, known cost (a few seconds): the quick depth is a floor, not subject to the time cap
        s.uncapped_levels = 6;
        v.push(s);
    }
    v
}

/// Histories whose flushed images are decoded by the independent reader (C10).
pub fn layout_tables(cfg: &Cfg) -> Tables {
    let mut t = std_tables();
    // the last two are one byte and eight bytes longer than the longest key a record head
    // of this format can hold: they must be refused, never written
    t.keys = vec![b"a".to_vec(), vec![b'K'; 255], vec![b'L'; 256], vec![b'M'; cfg.max_key()], b"b\0".to_vec(), vec![b'N'; cfg.max_key() + 1], vec![b'O'; cfg.max_key() + 8]];
    t
}

pub fn layout_ops(ttl: bool) -> Vec<Op> {
    let mut v = Vec::new();
    for k in 0..5u8 {
        v.push(ins(k, V_X));
    }
    v.push(ins(5, V_X));
    v.push(ins(6, V_X));
    v.push(ins(0, V_BIG2));
    v.push(ins(3, V_BIG3));
    v.push(ins_ts(0, V_Y, 1));
    v.push(ins_ts(0, V_Y, u64::MAX));
    v.push(ins_ts(4, V_X, FUT));
    v.push(Op::Delete { k: 0, ts: 0 });
    v.push(Op::Delete { k: 3, ts: 0 });
    v.push(Op::Incr { k: 1, delta: 1, ts: 0, ttl: 0 });
    if ttl {
        v.push(ins_ttl(0, V_X, 1000, 0));
        v.push(Op::UpdateTtl { k: 0, secs: 1 });
        v.push(Op::Persist(0));
    }
    v.push(Op::Flush);
    v.push(Op::Reopen);
    v
}

pub fn layout_suites(thorough: bool) -> Vec<Suite> {
    let d = |q: usize, t: usize| if thorough { t } else { q };
    let mut v = Vec::new();
    for (format, ttl) in [(3, true), (2, true), (1, false), (3, false)] {
        let cfg = disk(format, true, ttl);
        v.push(crash_suite(
            &format!("layout-v{format}{}", if ttl { "-ttl" } else { "" }),
            cfg,
            layout_tables(&cfg),
            layout_ops(ttl),
            d(4, 5),
        ));
    }
    for format in [1, 2, 3] {
        v.push(crash_suite(&format!("layout-edge-v{format}"), disk(format, true, false), edge_tables(), edge_ops(), d(4, 6)));
    }
    // generations that run out while the store is down (recovery drops and retires them) or while it is
    // up (sweeper / lazy expiry), then an acknowledged flush: the counters in the metadata must be the
    // live totals again
    for format in [3, 2] {
        let ops = vec![
            ins_ttl(0, V_X, 1, 0),
            ins_ttl(1, V_BIG3, 1, 0),
            ins(1, V_X),
            ins(0, V_BIG2),
            Op::Delete { k: 1, ts: 0 },
            Op::Advance(3),
            Op::Sweep,
            Op::Flush,
            Op::Reopen,
        ];
        v.push(crash_suite(&format!("layout-expiry-v{format}"), disk(format, true, true), std_tables(), ops, d(5, 6)));
    }
    // the "never 0" rule of the v3 token: the first record of a fresh device (block 16)
    // gets a value whose raw token fold is 0 / 1 / 0xffff
    {
        static VALUES: std::sync::OnceLock<Vec<Vec<u8>>> = std::sync::OnceLock::new();
        let values = VALUES.get_or_init(|| [0u16, 1, 0xffff].iter().map(|t| crate::layoutref::value_with_raw_fold(b"a", ZF_TS, 0, 16, 40, *t)).collect());
        let mut t = std_tables();
        let base = t.values.len() as u8;
        t.values.extend(values.iter().cloned());
        let ops = vec![ins_ts(0, base, ZF_TS), ins_ts(0, base + 1, ZF_TS), ins_ts(0, base + 2, ZF_TS), Op::Flush, Op::Reopen, Op::Get(0)];
        v.push(crash_suite("layout-token-fold-v3", disk(3, true, false), t, ops, 4));
    }
    v
}

/// Explicit timestamp of the token-fold records (fixed, so that the searched values stay valid).
pub const ZF_TS: u64 = crate::sut::T0 + 77;
