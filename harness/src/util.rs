//! Small shared helpers: hashing, scratch space, CPU affinity, parallel work lists,
//! evidence / replay / known-findings files.

use serde_json::{json, Value};
use std::hash::Hasher;
use std::path::{Path, PathBuf};
use std::sync::atomic::{AtomicBool, AtomicU64, AtomicUsize, Ordering};
use std::sync::Mutex;
use std::time::Instant;

pub fn hash64(parts: &[&[u8]]) -> u64 {
    #[allow(deprecated)]
    let mut h = std::hash::SipHasher::new_with_keys(0x6665_6f78, 0x7665_7269);
    for p in parts {
        h.write_usize(p.len());
        h.write(p);
    }
    h.finish()
}

pub fn hash128(bytes: &[u8]) -> u128 {
    #[allow(deprecated)]
    let mut a = std::hash::SipHasher::new_with_keys(1, 2);
    #[allow(deprecated)]
    let mut b = std::hash::SipHasher::new_with_keys(0x9e37_79b9_7f4a_7c15, 0xc2b2_ae3d_27d4_eb4f);
    a.write(bytes);
    b.write(bytes);
    ((a.finish() as u128) << 64) | b.finish() as u128
}

pub fn hex(bytes: &[u8]) -> String {
    let mut s = String::with_capacity(bytes.len() * 2);
    for b in bytes {
        s.push_str(&format!("{b:02x}"));
    }
    s
}

/// Printable rendering of a key or a short value.
pub fn show(bytes: &[u8]) -> String {
    if bytes.len() > 24 {
        return format!("<{}B:{:016x}>", bytes.len(), hash64(&[bytes]));
    }
    let mut s = String::new();
    for &b in bytes {
        if b.is_ascii_graphic() || b == b' ' {
            s.push(b as char);
        } else {
            s.push_str(&format!("\\x{b:02x}"));
        }
    }
    s
}

// ------------------------------------------------------------------ scratch space

static SCRATCH: Mutex<Option<PathBuf>> = Mutex::new(None);
static SCRATCH_SEQ: AtomicU64 = AtomicU64::new(0);

pub fn scratch_root() -> PathBuf {
    let mut guard = SCRATCH.lock().unwrap();
    if let Some(p) = guard.as_ref() {
        return p.clone();
    }
    let base = std::env::var("VERIF_SCRATCH").ok().map(PathBuf::from).unwrap_or_else(|| {
        if Path::new("/dev/shm").is_dir() {
            PathBuf::from("/dev/shm")
        } else {
            std::env::temp_dir()
        }
    });
    let p = base.join(format!("fv-{}", std::process::id()));
    let _ = std::fs::remove_dir_all(&p);
    std::fs::create_dir_all(&p).expect("create scratch dir");
    *guard = Some(p.clone());
    p
}

pub fn scratch_file(tag: &str) -> PathBuf {
    let n = SCRATCH_SEQ.fetch_add(1, Ordering::Relaxed);
    scratch_root().join(format!("{tag}-{n}.feox"))
}

pub fn scratch_cleanup() {
    let guard = SCRATCH.lock().unwrap();
    if let Some(p) = guard.as_ref() {
        let _ = std::fs::remove_dir_all(p);
    }
}

pub struct TempFile(pub PathBuf);
impl TempFile {
    pub fn new(tag: &str) -> Self {
        TempFile(scratch_file(tag))
    }
    pub fn path(&self) -> &str {
        self.0.to_str().unwrap()
    }
}
impl Drop for TempFile {
    fn drop(&mut self) {
        let _ = std::fs::remove_file(&self.0);
    }
}

// ------------------------------------------------------------------ affinity

pub fn full_cpu_set() -> libc::cpu_set_t {
    static FULL: std::sync::OnceLock<CpuSet> = std::sync::OnceLock::new();
    FULL.get_or_init(|| unsafe {
        let mut set: libc::cpu_set_t = std::mem::zeroed();
        libc::sched_getaffinity(0, std::mem::size_of::<libc::cpu_set_t>(), &mut set);
        CpuSet(set)
    })
    .0
}
struct CpuSet(libc::cpu_set_t);
unsafe impl Send for CpuSet {}
unsafe impl Sync for CpuSet {}

pub fn cpus_available() -> Vec<usize> {
    let set = full_cpu_set();
    (0..libc::CPU_SETSIZE as usize)
        .filter(|&i| unsafe { libc::CPU_ISSET(i, &set) })
        .collect()
}

pub fn set_affinity_full() {
    let set = full_cpu_set();
    unsafe {
        libc::sched_setaffinity(0, std::mem::size_of::<libc::cpu_set_t>(), &set);
    }
}

thread_local! {
    /// The CPU this exploring thread — and every thread of the stores it drives — lives on.
    /// Threads of one execution hand the CPU to each other all the time (token passing,
    /// flush requests and answers); on one CPU that is a context switch, across CPUs it is
    /// a wake-up of an idle core, which costs up to a millisecond on a loaded host.
    static HOME_CPU: std::cell::Cell<Option<usize>> = const { std::cell::Cell::new(None) };
}

pub fn home_cpu() -> Option<usize> {
    HOME_CPU.with(|h| h.get())
}

pub fn set_affinity_one(cpu: usize) {
    unsafe {
        let mut set: libc::cpu_set_t = std::mem::zeroed();
        libc::CPU_SET(cpu, &mut set);
        libc::sched_setaffinity(0, std::mem::size_of::<libc::cpu_set_t>(), &set);
    }
}

/// Pin the calling thread to `cpu` (None: all CPUs) and remember it as its home.
pub fn set_home_cpu(cpu: Option<usize>) {
    HOME_CPU.with(|h| h.set(cpu));
    restore_home_affinity();
}

/// A child process of the harness: starts with the full CPU mask, whatever CPU the
/// spawning thread is pinned to.
pub fn child_command(exe: &std::path::Path) -> std::process::Command {
    use std::os::unix::process::CommandExt;
    let mut c = std::process::Command::new(exe);
    let set = CpuSet(full_cpu_set());
    unsafe {
        c.pre_exec(move || {
            libc::sched_setaffinity(0, std::mem::size_of::<libc::cpu_set_t>(), &set.0);
            Ok(())
        });
    }
    c
}

pub fn restore_home_affinity() {
    match home_cpu() {
        Some(c) => set_affinity_one(c),
        None => set_affinity_full(),
    }
}

/// Run `f` while the calling thread sees exactly `n` CPUs (so that `num_cpus::get()`
/// inside reports `n`), then restore the full mask. Returns None if fewer CPUs exist.
pub fn with_visible_cpus<T>(n: usize, rotate: usize, f: impl FnOnce() -> T) -> Option<T> {
    let cpus = cpus_available();
    if n == 0 || n > cpus.len() {
        return None;
    }
    unsafe {
        let mut set: libc::cpu_set_t = std::mem::zeroed();
        for i in 0..n {
            libc::CPU_SET(cpus[(rotate * n + i) % cpus.len()], &mut set);
        }
        if libc::sched_setaffinity(0, std::mem::size_of::<libc::cpu_set_t>(), &set) != 0 {
            return None;
        }
    }
    let out = f();
    restore_home_affinity();
    Some(out)
}

pub fn worker_threads() -> usize {
    std::env::var("VERIF_THREADS")
        .ok()
        .and_then(|v| v.parse().ok())
        .unwrap_or_else(|| cpus_available().len().max(1))
}

// ------------------------------------------------------------------ parallel work list

/// Process `items` on `threads` threads; `f(thread_index, item)`; stops early when `stop` is set.
pub fn par_for_each<T: Send>(
    items: Vec<T>,
    threads: usize,
    stop: &AtomicBool,
    f: impl Fn(usize, T) + Sync,
) {
    let queue = Mutex::new(items.into_iter());
    std::thread::scope(|scope| {
        for t in 0..threads.max(1) {
            let queue = &queue;
            let f = &f;
            scope.spawn(move || loop {
                if threads > 1 && home_cpu().is_none() && std::env::var_os("VERIF_NO_PIN").is_none() {
                    let cpus = cpus_available();
                    set_home_cpu(Some(cpus[t % cpus.len()]));
                }
                if stop.load(Ordering::Relaxed) {
                    break;
                }
                let item = queue.lock().unwrap().next();
                match item {
                    Some(item) => f(t, item),
                    None => break,
                }
            });
        }
    });
}

// ------------------------------------------------------------------ deadlines

pub struct Deadline {
    start: Instant,
    limit_s: f64,
}
impl Deadline {
    pub fn new(limit_s: f64) -> Self {
        Deadline { start: Instant::now(), limit_s }
    }
    pub fn limit(&self) -> f64 {
        self.limit_s
    }
    pub fn elapsed(&self) -> f64 {
        self.start.elapsed().as_secs_f64()
    }
    pub fn expired(&self) -> bool {
        self.elapsed() > self.limit_s
    }
}

/// Number of open file descriptors of this process (feoxdb pins files that saw an
/// indeterminate write for the life of the process).
pub fn open_fds() -> usize {
    std::fs::read_dir("/proc/self/fd").map(|d| d.count()).unwrap_or(0)
}

pub fn rss_mb() -> u64 {
    std::fs::read_to_string("/proc/self/statm")
        .ok()
        .and_then(|s| s.split_whitespace().nth(1).and_then(|v| v.parse::<u64>().ok()))
        .map(|pages| pages * 4096 / (1024 * 1024))
        .unwrap_or(0)
}

// ------------------------------------------------------------------ results

/// Outcome of one check run.
pub struct Report {
    pub property: String,
    pub tier: String,
    pub level: &'static str,
    pub start: Instant,
    pub coverage: serde_json::Map<String, Value>,
    pub assumptions: Vec<String>,
    pub violations: Vec<Violation>,
    pub machinery: Vec<String>,
    pub samples: Vec<Value>,
}

#[derive(Clone, Debug)]
pub struct Violation {
    /// Stable signature used for matching against known findings.
    pub signature: String,
    pub detail: String,
    pub replay: Value,
}

impl Report {
    pub fn new(property: &str, tier: &str, level: &'static str) -> Self {
        Report {
            property: property.to_string(),
            tier: tier.to_string(),
            level,
            start: Instant::now(),
            coverage: serde_json::Map::new(),
            assumptions: Vec::new(),
            violations: Vec::new(),
            machinery: Vec::new(),
            samples: Vec::new(),
        }
    }
    pub fn set(&mut self, key: &str, v: impl Into<Value>) {
        self.coverage.insert(key.to_string(), v.into());
    }
    /// Merge `map` into the object stored under `key` (creating it if needed).
    pub fn merge_map(&mut self, key: &str, map: serde_json::Map<String, Value>) {
        let mut cur = match self.coverage.remove(key) {
            Some(Value::Object(o)) => o,
            _ => serde_json::Map::new(),
        };
        for (k, v) in map {
            cur.insert(k, v);
        }
        self.coverage.insert(key.to_string(), Value::Object(cur));
    }

    pub fn add(&mut self, key: &str, n: u64) {
        let cur = self.coverage.get(key).and_then(|v| v.as_u64()).unwrap_or(0);
        self.coverage.insert(key.to_string(), json!(cur + n));
    }
    pub fn get(&self, key: &str) -> u64 {
        self.coverage.get(key).and_then(|v| v.as_u64()).unwrap_or(0)
    }
    pub fn sample(&mut self, v: Value) {
        if self.samples.len() < 12 {
            self.samples.push(v);
        }
    }
    pub fn violation(&mut self, signature: impl Into<String>, detail: impl Into<String>, replay: Value) {
        let v = Violation { signature: signature.into(), detail: detail.into(), replay };
        if self.violations.len() < 64 {
            self.violations.push(v);
        }
    }
    pub fn machinery(&mut self, msg: impl Into<String>) {
        self.machinery.push(msg.into());
    }
    pub fn merge(&mut self, other: Report) {
        for (k, v) in other.coverage {
            match (self.coverage.get(&k).cloned(), &v) {
                (Some(Value::Number(a)), Value::Number(b)) if a.is_u64() && b.is_u64() => {
                    self.coverage.insert(k, json!(a.as_u64().unwrap() + b.as_u64().unwrap()));
                }
                (Some(Value::Object(mut a)), Value::Object(b)) => {
                    for (kk, vv) in b {
                        let s = a.get(kk).and_then(|x| x.as_u64()).unwrap_or(0) + vv.as_u64().unwrap_or(0);
                        a.insert(kk.clone(), json!(s));
                    }
                    self.coverage.insert(k, Value::Object(a));
                }
                (None, _) => {
                    self.coverage.insert(k, v);
                }
                _ => {}
            }
        }
        for s in other.samples {
            self.sample(s);
        }
        self.violations.extend(other.violations);
        self.machinery.extend(other.machinery);
        for a in other.assumptions {
            if !self.assumptions.contains(&a) {
                self.assumptions.push(a);
            }
        }
    }
}

pub fn verif_root() -> PathBuf {
    std::env::var("VERIF_ROOT").map(PathBuf::from).unwrap_or_else(|_| PathBuf::from("/verif"))
}

pub fn seed() -> u64 {
    std::env::var("VERIF_SEED").ok().and_then(|v| v.parse().ok()).unwrap_or(0)
}

struct Known {
    property: String,
    status: String,
    signature: String,
    what: String,
}

fn load_known() -> Vec<Known> {
    let path = verif_root().join("known_findings.json");
    let Ok(text) = std::fs::read_to_string(path) else { return Vec::new() };
    let Ok(v) = serde_json::from_str::<Value>(&text) else { return Vec::new() };
    v.get("findings")
        .and_then(|f| f.as_array())
        .map(|arr| {
            arr.iter()
                .map(|e| Known {
                    property: e["property"].as_str().unwrap_or("").to_string(),
                    status: e["status"].as_str().unwrap_or("").to_string(),
                    signature: e["signature"].as_str().unwrap_or("").to_string(),
                    what: e["what"].as_str().unwrap_or("").to_string(),
                })
                .collect()
        })
        .unwrap_or_default()
}

/// Write evidence + replay files, print the verdict lines, return the exit code.
pub fn finish(mut report: Report) -> i32 {
    let root = verif_root();
    let known = load_known();
    let wall = report.start.elapsed().as_secs_f64();

    // Split violations into known findings and new ones.
    let mut fresh: Vec<Violation> = Vec::new();
    let mut known_hit: Vec<(String, String)> = Vec::new();
    for v in report.violations.drain(..) {
        let hit = known.iter().find(|k| {
            k.property == report.property && k.status == "finding" && v.signature.contains(&k.signature)
        });
        match hit {
            Some(k) => {
                if !known_hit.iter().any(|(s, _)| s == &k.signature) {
                    known_hit.push((k.signature.clone(), k.what.clone()));
                }
            }
            None => {
                if !fresh.iter().any(|f| f.signature == v.signature) || fresh.len() < 4 {
                    fresh.push(v);
                }
            }
        }
    }

    let mut exit = 0;
    let replay_dir = root.join("replays").join(&report.property);
    let mut replay_paths = Vec::new();
    if !fresh.is_empty() {
        let _ = std::fs::create_dir_all(&replay_dir);
    }
    for (i, v) in fresh.iter().enumerate() {
        let path = replay_dir.join(format!("{}-{}.json", report.tier, i));
        let body = json!({
            "property": report.property,
            "signature": v.signature,
            "detail": v.detail,
            "replay": v.replay,
        });
        let _ = std::fs::write(&path, serde_json::to_string_pretty(&body).unwrap());
        replay_paths.push(path);
    }

    if !report.machinery.is_empty() {
        for m in &report.machinery {
            println!("MACHINERY property={} {}", report.property, m);
        }
        exit = 2;
    }
    for (sig, what) in &known_hit {
        println!("KNOWN-FINDING: property={} {} [{}]", report.property, what, sig);
    }
    for (v, path) in fresh.iter().zip(&replay_paths) {
        println!("VIOLATION property={} replay={}", report.property, path.display());
        println!("  signature: {}", v.signature);
        for line in v.detail.lines().take(40) {
            println!("  {line}");
        }
        exit = 1;
    }

    report.coverage.insert("samples".into(), Value::Array(report.samples.clone()));
    let evidence = json!({
        "property_id": report.property,
        "tier": report.tier,
        "seed": seed(),
        "level": report.level,
        "coverage": Value::Object(report.coverage.clone()),
        "assumptions": report.assumptions,
        "wall_s": (wall * 1000.0).round() / 1000.0,
        "violations": fresh.len(),
        "known_findings_hit": known_hit.iter().map(|(s, _)| s.clone()).collect::<Vec<_>>(),
        "machinery_errors": report.machinery,
    });
    let evidence_dir = root.join("evidence");
    let _ = std::fs::create_dir_all(&evidence_dir);
    let path = evidence_dir.join(format!("{}.json", report.property));
    if let Err(e) = std::fs::write(&path, serde_json::to_string_pretty(&evidence).unwrap()) {
        println!("MACHINERY property={} cannot write evidence: {e}", report.property);
        exit = exit.max(2);
    }
    let summary: Vec<String> = ["states", "transitions", "evaluations", "distinct_nontrivial", "traces_validated_against_impl"]
        .iter()
        .filter_map(|k| report.coverage.get(*k).map(|v| format!("{k}={v}")))
        .collect();
    println!(
        "RESULT property={} tier={} exit={} wall={:.1}s {}",
        report.property,
        report.tier,
        exit,
        wall,
        summary.join(" ")
    );
    exit
}

pub static GLOBAL_STOP: AtomicBool = AtomicBool::new(false);
pub static COUNTER: AtomicUsize = AtomicUsize::new(0);

// ------------------------------------------------------------------ call watchdog (C18)

pub struct Slot {
    start_ms: AtomicU64,
    kind: Mutex<&'static str>,
    context: Mutex<Value>,
}

static SLOTS: Mutex<Vec<std::sync::Arc<Slot>>> = Mutex::new(Vec::new());
static EPOCH: std::sync::OnceLock<Instant> = std::sync::OnceLock::new();

thread_local! {
    static MY_SLOT: std::sync::Arc<Slot> = {
        let s = std::sync::Arc::new(Slot { start_ms: AtomicU64::new(0), kind: Mutex::new(""), context: Mutex::new(Value::Null) });
        SLOTS.lock().unwrap().push(s.clone());
        s
    };
}

fn now_ms() -> u64 {
    EPOCH.get_or_init(Instant::now).elapsed().as_millis() as u64 + 1
}

/// What this thread is working on, in the form of a replay descriptor; becomes the
/// replay file if a call hangs.
pub fn set_context(ctx: Value) {
    MY_SLOT.with(|s| *s.context.lock().unwrap() = ctx);
}

/// Marks a call into the store as in progress until the guard is dropped.
pub struct InCall;
pub fn in_call(kind: &'static str) -> InCall {
    MY_SLOT.with(|s| {
        *s.kind.lock().unwrap() = kind;
        s.start_ms.store(now_ms(), Ordering::SeqCst);
    });
    InCall
}
impl Drop for InCall {
    fn drop(&mut self) {
        MY_SLOT.with(|s| s.start_ms.store(0, Ordering::SeqCst));
    }
}

/// Every call into the store runs under this watchdog. A call that does not return
/// within `limit_s` is a C18 violation when the running check is C18's; for any other
/// registered check it means no verdict can be produced (exit 2, naming the call); for
/// replays and debug commands (`tier` empty) it is reported and exits 1.
pub fn start_watchdog(property: &str, tier: &str, limit_s: u64) {
    let property = property.to_string();
    let tier = tier.to_string();
    std::thread::spawn(move || loop {
        std::thread::sleep(std::time::Duration::from_millis(500));
        let now = now_ms();
        let slots = SLOTS.lock().unwrap().clone();
        for s in slots {
            let st = s.start_ms.load(Ordering::SeqCst);
            if st == 0 || now.saturating_sub(st) <= limit_s * 1000 {
                continue;
            }
            let kind = *s.kind.lock().unwrap();
            let ctx = s.context.lock().unwrap().clone();
            let short: String = ctx.to_string().chars().take(400).collect();
            let msg = format!("C18: a call into the store ({kind}) did not return within {limit_s} s; context: {short}");
            if tier.is_empty() {
                println!("HANG {msg}");
                scratch_cleanup();
                std::process::exit(1);
            }
            let root = verif_root();
            let is_c18 = property == "C18";
            let replay = root.join("replays").join(&property).join(format!("{tier}-hang.json"));
            let _ = std::fs::create_dir_all(replay.parent().unwrap());
            let rv = if ctx.get("engine").is_some() { ctx.clone() } else { json!({"engine": "hang", "context": ctx}) };
            let _ = std::fs::write(
                &replay,
                serde_json::to_string_pretty(&json!({"property": property, "signature": format!("hang|{kind}|{short}"), "detail": msg, "replay": rv})).unwrap(),
            );
            let evidence = json!({
                "property_id": property, "tier": tier, "seed": seed(), "level": "model_checking",
                "coverage": {"states": 1, "transitions": 1, "traces_validated_against_impl": 1, "samples": [ctx], "explanation": "the run was stopped by the call watchdog"},
                "wall_s": 0.0, "violations": if is_c18 { 1 } else { 0 }, "machinery_errors": if is_c18 { json!([]) } else { json!([msg]) },
            });
            let _ = std::fs::create_dir_all(root.join("evidence"));
            let _ = std::fs::write(root.join("evidence").join(format!("{property}.json")), serde_json::to_string_pretty(&evidence).unwrap());
            if is_c18 {
                println!("VIOLATION property=C18 replay={}", replay.display());
                println!("  signature: hang|{kind}|{short}");
                println!("  {msg}");
                scratch_cleanup();
                std::process::exit(1);
            }
            println!("MACHINERY property={property} {msg} (termination failures are judged by the C18 check)");
            scratch_cleanup();
            std::process::exit(2);
        }
    });
}

/// Environment action any other thread of a real program performs all the time: pin the
/// epoch collector and let it advance and run deferred destructors. A reader that is
/// (correctly) pinned blocks the advance; memory freed under an unpinned reader is then
/// really freed while that reader is parked, which the sanitizer build sees.
pub fn epoch_pump() {
    for _ in 0..6 {
        let g = crossbeam_epoch::pin();
        g.flush();
    }
}
