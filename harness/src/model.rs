//! The reference model: a last-writer-wins map with expiry, stepped in lock-step
//! with the real store. See DESIGN.md Appendix A for the table this implements.

use crate::sut::{Cfg, Op, Out, Tables, SEC};
use feoxdb::verif::StoreDump;
use std::collections::BTreeMap;

#[derive(Clone, Debug, PartialEq, Eq)]
pub struct Gen {
    pub value: Vec<u8>,
    pub ts: u64,
    pub expiry: u64,
}

#[derive(Clone, Debug)]
pub struct Model {
    pub cfg: Cfg,
    pub map: BTreeMap<Vec<u8>, Gen>,
    pub now: u64,
    pub rec_overhead: usize,
    /// Largest timestamp the store's clock may legitimately know about.
    pub max_seen: u64,
    /// Per key: largest timestamp accepted (or recovered) since the store was opened.
    pub key_max: BTreeMap<Vec<u8>, u64>,
    /// Behaviours the properties do not constrain, as observed (never violations).
    pub observations: Vec<String>,
    /// Concurrent histories: take reported timestamps as given (every call is treated
    /// as explicitly timestamped); the C12 clock constraints are not applied.
    pub lenient_ts: bool,
    /// The environment makes device calls fail: a flush may report an I/O error (it then
    /// acknowledges nothing). Set by the engines that inject faults.
    pub faulty_device: bool,
}

pub const MAX_KEY: usize = 100 * 1024;
pub const MAX_VALUE: usize = 4 * 1024 * 1024;

fn ttl_expiry(base: u64, secs: u64) -> u64 {
    if secs == 0 {
        0
    } else {
        base.saturating_add(secs.saturating_mul(SEC))
    }
}

/// Minimal RFC 6902 evaluation for the patches in the alphabet (top-level members
/// of an object only): add / replace / remove / test.
pub fn eval_patch(doc: &[u8], patch: &[u8]) -> Result<Vec<u8>, ()> {
    use serde_json::Value;
    let mut doc: Value = serde_json::from_slice(doc).map_err(|_| ())?;
    let patch: Value = serde_json::from_slice(patch).map_err(|_| ())?;
    let ops = patch.as_array().ok_or(())?;
    for op in ops {
        let name = op.get("op").and_then(|v| v.as_str()).ok_or(())?;
        let path = op.get("path").and_then(|v| v.as_str()).ok_or(())?;
        let member = path.strip_prefix('/').ok_or(())?;
        if member.contains('/') || member.contains('~') {
            return Err(());
        }
        let obj = doc.as_object_mut().ok_or(())?;
        match name {
            "add" => {
                obj.insert(member.to_string(), op.get("value").cloned().ok_or(())?);
            }
            "replace" => {
                if !obj.contains_key(member) {
                    return Err(());
                }
                obj.insert(member.to_string(), op.get("value").cloned().ok_or(())?);
            }
            "remove" => {
                obj.remove(member).ok_or(())?;
            }
            "test" => {
                if obj.get(member) != Some(op.get("value").ok_or(())?) {
                    return Err(());
                }
            }
            _ => return Err(()),
        }
    }
    serde_json::to_vec(&doc).map_err(|_| ())
}

impl Model {
    pub fn new(cfg: Cfg, now: u64) -> Model {
        Model {
            cfg,
            map: BTreeMap::new(),
            now,
            rec_overhead: std::mem::size_of::<feoxdb::core::record::Record>(),
            max_seen: 0,
            key_max: BTreeMap::new(),
            observations: Vec::new(),
            lenient_ts: false,
            faulty_device: false,
        }
    }

    pub fn expired(&self, g: &Gen) -> bool {
        self.cfg.ttl && g.expiry > 0 && self.now > g.expiry
    }

    pub fn size_of(&self, key: &[u8], value_len: usize) -> usize {
        self.rec_overhead + key.len() + value_len
    }

    pub fn usage(&self) -> usize {
        self.map.iter().map(|(k, g)| self.size_of(k, g.value.len())).sum()
    }

    fn fits(&self, grow: usize) -> bool {
        match self.cfg.max_memory {
            None => true,
            Some(limit) => grow == 0 || self.usage().checked_add(grow).is_some_and(|n| n <= limit),
        }
    }

    /// What `get` must return for every key, and what the full range query returns.
    pub fn visible(&self) -> Vec<(Vec<u8>, Vec<u8>)> {
        self.map.iter().filter(|(_, g)| !self.expired(g)).map(|(k, g)| (k.clone(), g.value.clone())).collect()
    }

    fn new_key_ok(&self, key: &[u8]) -> bool {
        !key.is_empty() && key.len() <= MAX_KEY && key.len() <= self.cfg.max_key()
    }

    fn key_ok(key: &[u8]) -> bool {
        !key.is_empty() && key.len() <= MAX_KEY
    }

    fn accept_ts(&mut self, key: &[u8], ts: u64) {
        if ts != u64::MAX {
            self.max_seen = self.max_seen.max(ts);
        }
        let e = self.key_max.entry(key.to_vec()).or_insert(0);
        *e = (*e).max(ts);
    }

    /// Validate a timestamp the store chose by itself (C12) and return it.
    fn auto_ts(&mut self, key: &[u8], ts_used: u64, floor: u64) -> Result<u64, String> {
        if ts_used == 0 {
            return Err("MACHINERY: the call resolved an automatic timestamp but none was reported by the hook".into());
        }
        if self.lenient_ts {
            return Ok(ts_used);
        }
        if let Some(cur) = self.map.get(key) {
            if cur.ts != u64::MAX && ts_used <= cur.ts {
                return Err(format!(
                    "C12: automatic timestamp {ts_used} is not greater than the key's current timestamp {}",
                    cur.ts
                ));
            }
        }
        if let Some(&m) = self.key_max.get(key) {
            if m != u64::MAX && ts_used <= m {
                return Err(format!(
                    "C12: automatic timestamp {ts_used} does not exceed timestamp {m} previously accepted/recovered for the key"
                ));
            }
        }
        if ts_used <= floor && floor != u64::MAX {
            return Err(format!("C12: automatic timestamp {ts_used} not above the retirement instant {floor}"));
        }
        let bound = self.now.max(self.max_seen.saturating_add(1)).max(floor.saturating_add(1));
        if ts_used > bound {
            return Err(format!(
                "C12: automatic timestamp {ts_used} is ahead of max(now={}, 1+largest accepted={}): a timestamp that was never accepted leaked into the clock",
                self.now, self.max_seen
            ));
        }
        self.max_seen = self.max_seen.max(ts_used);
        Ok(ts_used)
    }

    fn resolve(&mut self, key: &[u8], explicit: u64, ts_used: u64) -> Result<u64, String> {
        if explicit != 0 {
            Ok(explicit)
        } else {
            self.auto_ts(key, ts_used, 0)
        }
    }

    fn mismatch(t: &Tables, op: &Op, want: &Out, got: &Out) -> String {
        format!("C01: {} returned {} but the model expects {}", t.describe(op), got.brief(), want.brief())
    }

    fn expect(t: &Tables, op: &Op, want: Out, got: &Out) -> Result<(), String> {
        if &want == got {
            Ok(())
        } else {
            Err(Self::mismatch(t, op, &want, got))
        }
    }

    /// Step the model with `op`, given what the store returned and the timestamp
    /// the store reported having resolved (0 if none). `Err` = property violation
    /// (or a `MACHINERY:` complaint).
    pub fn step(&mut self, t: &Tables, op: &Op, out: &Out, ts_used: u64) -> Result<(), String> {
        if let Out::Panic(p) = out {
            return Err(format!("C17/C20: {} panicked: {p}", t.describe(op)));
        }
        let persistent_v1 = self.cfg.persistent && self.cfg.format == 1;
        match *op {
            Op::Get(k) | Op::GetBytes(k) => {
                let key = &t.keys[k as usize];
                let want = if !Self::key_ok(key) {
                    Out::err("InvalidKeySize")
                } else {
                    match self.map.get(key) {
                        Some(g) if !self.expired(g) => Out::Bytes(g.value.clone()),
                        _ => Out::err("KeyNotFound"),
                    }
                };
                Self::expect(t, op, want, out)
            }
            Op::GetSize(k) => {
                let key = &t.keys[k as usize];
                let want = if !Self::key_ok(key) {
                    Out::err("InvalidKeySize")
                } else {
                    match self.map.get(key) {
                        Some(g) if self.expired(g) => {
                            // Unconstrained: lazily expired keys are physically present.
                            if out != &Out::Size(g.value.len()) && out != &Out::err("KeyNotFound") {
                                return Err(Self::mismatch(t, op, &Out::Size(g.value.len()), out));
                            }
                            return Ok(());
                        }
                        Some(g) => Out::Size(g.value.len()),
                        None => Out::err("KeyNotFound"),
                    }
                };
                Self::expect(t, op, want, out)
            }
            Op::Contains(k) => {
                let key = &t.keys[k as usize];
                match self.map.get(key) {
                    Some(g) if self.expired(g) => {
                        if !matches!(out, Out::Bool(_)) {
                            return Err(Self::mismatch(t, op, &Out::Bool(true), out));
                        }
                        Ok(())
                    }
                    Some(_) => Self::expect(t, op, Out::Bool(true), out),
                    None => Self::expect(t, op, Out::Bool(false), out),
                }
            }
            Op::Len => {
                let physical = self.map.len();
                let visible = self.visible().len();
                match out {
                    Out::Size(n) if *n == physical => Ok(()),
                    Out::Size(n) if *n == visible => Ok(()),
                    _ => Err(Self::mismatch(t, op, &Out::Size(physical), out)),
                }
            }
            Op::GetTtl(k) => {
                let key = &t.keys[k as usize];
                let want = if !self.cfg.ttl {
                    Out::err("TtlNotEnabled")
                } else if !Self::key_ok(key) {
                    Out::err("InvalidKeySize")
                } else {
                    match self.map.get(key) {
                        None => Out::err("KeyNotFound"),
                        Some(g) if g.expiry == 0 => Out::OptU64(None),
                        Some(g) if self.now >= g.expiry => {
                            // expired (or expiring this very instant): Some(0) or KeyNotFound
                            if out == &Out::OptU64(Some(0)) || (self.now > g.expiry && out == &Out::err("KeyNotFound")) {
                                return Ok(());
                            }
                            Out::OptU64(Some(0))
                        }
                        Some(g) => Out::OptU64(Some((g.expiry - self.now) / SEC)),
                    }
                };
                Self::expect(t, op, want, out)
            }
            Op::Insert { k, v, ts, ttl, bytes: _ } => {
                let key = t.keys[k as usize].clone();
                let val = t.values[v as usize].clone();
                if ttl > 0 {
                    if !self.cfg.ttl {
                        return Self::expect(t, op, Out::err("TtlNotEnabled"), out);
                    }
                    if persistent_v1 {
                        return Self::expect(t, op, Out::err("Unsupported"), out);
                    }
                }
                if !self.new_key_ok(&key) {
                    return Self::expect(t, op, Out::err("InvalidKeySize"), out);
                }
                if val.is_empty() || val.len() > MAX_VALUE {
                    return Self::expect(t, op, Out::err("InvalidValueSize"), out);
                }
                let ts = self.resolve(&key, ts, ts_used)?;
                let expiry = if self.cfg.ttl { ttl_expiry(ts, ttl) } else { 0 };
                match self.map.get(&key).cloned() {
                    Some(cur) => {
                        if ts <= cur.ts {
                            return Self::expect(t, op, Out::err("OlderTimestamp"), out);
                        }
                        let grow = val.len().saturating_sub(cur.value.len());
                        if !self.fits(grow) {
                            return Self::expect(t, op, Out::err("OutOfMemory"), out);
                        }
                        if self.expired(&cur) {
                            // The boolean over an expired-but-present key is unconstrained.
                            if !matches!(out, Out::Bool(_)) {
                                return Err(Self::mismatch(t, op, &Out::Bool(false), out));
                            }
                        } else {
                            Self::expect(t, op, Out::Bool(false), out)?;
                        }
                    }
                    None => {
                        if !self.fits(self.size_of(&key, val.len())) {
                            return Self::expect(t, op, Out::err("OutOfMemory"), out);
                        }
                        Self::expect(t, op, Out::Bool(true), out)?;
                    }
                }
                self.accept_ts(&key, ts);
                self.map.insert(key, Gen { value: val, ts, expiry });
                Ok(())
            }
            Op::Delete { k, ts } => {
                let key = t.keys[k as usize].clone();
                if !Self::key_ok(&key) {
                    return Self::expect(t, op, Out::err("InvalidKeySize"), out);
                }
                let ts = self.resolve(&key, ts, ts_used)?;
                match self.map.get(&key).cloned() {
                    None => Self::expect(t, op, Out::err("KeyNotFound"), out),
                    Some(cur) => {
                        if ts <= cur.ts {
                            return Self::expect(t, op, Out::err("OlderTimestamp"), out);
                        }
                        if self.expired(&cur) && out == &Out::err("KeyNotFound") {
                            self.observations.push("delete of an expired key reported KeyNotFound".into());
                            return Ok(());
                        }
                        Self::expect(t, op, Out::Unit, out)?;
                        self.accept_ts(&key, ts);
                        self.map.remove(&key);
                        Ok(())
                    }
                }
            }
            Op::Cas { k, expect, new, ts, ttl } => {
                let key = t.keys[k as usize].clone();
                let expect_v = &t.values[expect as usize];
                let new_v = t.values[new as usize].clone();
                if ttl > 0 && persistent_v1 {
                    return Self::expect(t, op, Out::err("Unsupported"), out);
                }
                if !self.new_key_ok(&key) {
                    return Self::expect(t, op, Out::err("InvalidKeySize"), out);
                }
                if new_v.is_empty() || new_v.len() > MAX_VALUE {
                    return Self::expect(t, op, Out::err("InvalidValueSize"), out);
                }
                let cur = match self.map.get(&key).cloned() {
                    Some(g) if !self.expired(&g) && &g.value == expect_v => g,
                    _ => return Self::expect(t, op, Out::Bool(false), out),
                };
                let ts = self.resolve(&key, ts, ts_used)?;
                if ts <= cur.ts {
                    return Self::expect(t, op, Out::err("OlderTimestamp"), out);
                }
                if !self.fits(new_v.len().saturating_sub(cur.value.len())) {
                    return Self::expect(t, op, Out::err("OutOfMemory"), out);
                }
                Self::expect(t, op, Out::Bool(true), out)?;
                self.accept_ts(&key, ts);
                self.map.insert(key, Gen { value: new_v, ts, expiry: ttl_expiry(ts, ttl) });
                Ok(())
            }
            Op::Incr { k, delta, ts, ttl } => {
                let key = t.keys[k as usize].clone();
                if ttl > 0 && persistent_v1 {
                    return Self::expect(t, op, Out::err("Unsupported"), out);
                }
                if !self.new_key_ok(&key) {
                    return Self::expect(t, op, Out::err("InvalidKeySize"), out);
                }
                let mut floor = 0;
                if let Some(cur) = self.map.get(&key).cloned() {
                    if ts != 0 && ts <= cur.ts {
                        return Self::expect(t, op, Out::err("OlderTimestamp"), out);
                    }
                    if self.expired(&cur) {
                        // The expired generation is retired first (physically removed),
                        // whatever the call then returns.
                        self.map.remove(&key);
                        self.max_seen = self.max_seen.max(self.now);
                        floor = self.now;
                    } else {
                        if cur.value.len() != 8 {
                            return Self::expect(t, op, Out::err("InvalidOperation"), out);
                        }
                        let old = i64::from_le_bytes(cur.value[..].try_into().unwrap());
                        let new = old.saturating_add(delta);
                        let ts = if ts != 0 { ts } else { self.auto_ts(&key, ts_used, 0)? };
                        if ts <= cur.ts {
                            return Self::expect(t, op, Out::err("OlderTimestamp"), out);
                        }
                        Self::expect(t, op, Out::Int(new), out)?;
                        self.accept_ts(&key, ts);
                        self.map.insert(key, Gen { value: new.to_le_bytes().to_vec(), ts, expiry: ttl_expiry(ts, ttl) });
                        return Ok(());
                    }
                }
                // absent (or just retired): create with the delta
                if ts == 0 && floor == u64::MAX {
                    // no automatic timestamp can exceed a retirement at the end of time
                    return Self::expect(t, op, Out::err("OlderTimestamp"), out);
                }
                let ts = if ts != 0 {
                    if ts <= floor {
                        return Self::expect(t, op, Out::err("OlderTimestamp"), out);
                    }
                    ts
                } else {
                    self.auto_ts(&key, ts_used, floor)?
                };
                if !self.fits(self.size_of(&key, 8)) {
                    return Self::expect(t, op, Out::err("OutOfMemory"), out);
                }
                Self::expect(t, op, Out::Int(delta), out)?;
                self.accept_ts(&key, ts);
                self.map.insert(key, Gen { value: delta.to_le_bytes().to_vec(), ts, expiry: ttl_expiry(ts, ttl) });
                Ok(())
            }
            Op::Ifa { k, v } => {
                let key = t.keys[k as usize].clone();
                let val = t.values[v as usize].clone();
                if !self.new_key_ok(&key) {
                    return Self::expect(t, op, Out::err("InvalidKeySize"), out);
                }
                if val.is_empty() || val.len() > MAX_VALUE {
                    return Self::expect(t, op, Out::err("InvalidValueSize"), out);
                }
                if let Some(cur) = self.map.get(&key).cloned() {
                    if self.expired(&cur) && out == &Out::Bool(true) {
                        // Unconstrained: treating an expired key as absent is also fine.
                        let ts = self.auto_ts(&key, ts_used, 0)?;
                        self.accept_ts(&key, ts);
                        self.map.insert(key, Gen { value: val, ts, expiry: 0 });
                        self.observations.push("insert_if_absent replaced an expired key".into());
                        return Ok(());
                    }
                    return Self::expect(t, op, Out::Bool(false), out);
                }
                if !self.fits(self.size_of(&key, val.len())) {
                    return Self::expect(t, op, Out::err("OutOfMemory"), out);
                }
                Self::expect(t, op, Out::Bool(true), out)?;
                let ts = self.auto_ts(&key, ts_used, 0)?;
                self.accept_ts(&key, ts);
                self.map.insert(key, Gen { value: val, ts, expiry: 0 });
                Ok(())
            }
            Op::Patch { k, p, ts } => {
                let key = t.keys[k as usize].clone();
                let patch = &t.patches[p as usize];
                if !Self::key_ok(&key) {
                    return Self::expect(t, op, Out::err("InvalidKeySize"), out);
                }
                let ts = self.resolve(&key, ts, ts_used)?;
                let cur = match self.map.get(&key).cloned() {
                    None => return Self::expect(t, op, Out::err("KeyNotFound"), out),
                    Some(g) => g,
                };
                if self.expired(&cur) {
                    // Absent for value-reading purposes; which error is reported first is
                    // not constrained.
                    if out == &Out::err("KeyNotFound") || (ts <= cur.ts && out == &Out::err("OlderTimestamp")) {
                        return Ok(());
                    }
                    return Err(Self::mismatch(t, op, &Out::err("KeyNotFound"), out));
                }
                if ts <= cur.ts {
                    return Self::expect(t, op, Out::err("OlderTimestamp"), out);
                }
                let new_v = match eval_patch(&cur.value, patch) {
                    Ok(v) => v,
                    Err(()) => return Self::expect(t, op, Out::err("JsonPatchError"), out),
                };
                if !self.new_key_ok(&key) {
                    return Self::expect(t, op, Out::err("InvalidKeySize"), out);
                }
                if new_v.is_empty() || new_v.len() > MAX_VALUE {
                    return Self::expect(t, op, Out::err("InvalidValueSize"), out);
                }
                if !self.fits(new_v.len().saturating_sub(cur.value.len())) {
                    return Self::expect(t, op, Out::err("OutOfMemory"), out);
                }
                Self::expect(t, op, Out::Unit, out)?;
                self.accept_ts(&key, ts);
                self.map.insert(key, Gen { value: new_v, ts, expiry: 0 });
                Ok(())
            }
            Op::UpdateTtl { k, .. } | Op::Persist(k) => {
                let secs = match *op {
                    Op::UpdateTtl { secs, .. } => secs,
                    _ => 0,
                };
                let key = t.keys[k as usize].clone();
                if !self.cfg.ttl {
                    return Self::expect(t, op, Out::err("TtlNotEnabled"), out);
                }
                if persistent_v1 {
                    return Self::expect(t, op, Out::err("Unsupported"), out);
                }
                if !Self::key_ok(&key) {
                    return Self::expect(t, op, Out::err("InvalidKeySize"), out);
                }
                let cur = match self.map.get(&key).cloned() {
                    Some(g) if !self.expired(&g) => g,
                    _ => return Self::expect(t, op, Out::err("KeyNotFound"), out),
                };
                if cur.ts == u64::MAX {
                    // The clock is consulted (and advanced) before the overflow is
                    // noticed; the hook does not report it. Upper bound of the clock:
                    self.max_seen = self.now.max(self.max_seen.saturating_add(1));
                    return Self::expect(t, op, Out::err("OlderTimestamp"), out);
                }
                Self::expect(t, op, Out::Unit, out)?;
                let ts = self.auto_ts(&key, ts_used, 0)?;
                self.accept_ts(&key, ts);
                self.map.insert(key, Gen { value: cur.value, ts, expiry: ttl_expiry(self.now, secs) });
                Ok(())
            }
            Op::Range { lo, hi, limit } => {
                let lo = &t.bounds[lo as usize];
                let hi = &t.bounds[hi as usize];
                let want = if lo.len() > MAX_KEY || hi.len() > MAX_KEY {
                    Out::err("InvalidKeySize")
                } else if limit == 0 || lo > hi {
                    Out::Pairs(Vec::new())
                } else {
                    Out::Pairs(
                        self.visible().into_iter().filter(|(k, _)| k >= lo && k <= hi).take(limit).collect(),
                    )
                };
                if &want != out {
                    return Err(format!("C14: {} returned {} but the model expects {}", t.describe(op), out.brief(), want.brief()));
                }
                Ok(())
            }
            Op::Flush => {
                if self.cfg.persistent && self.cfg.data_blocks <= 12 && out == &Out::err("OutOfSpace") {
                    // A full device may refuse a flush; nothing is acknowledged then.
                    self.observations.push("flush reported OutOfSpace on a tiny device".into());
                    return Ok(());
                }
                if self.faulty_device && matches!(out, Out::Err(e) if e == "IoError" || e == "IndeterminateWrite") {
                    return Ok(());
                }
                Self::expect(t, op, Out::Unit, out)
            }
            Op::Reopen => {
                Self::expect(t, op, Out::Unit, out)?;
                if self.cfg.ttl {
                    let now = self.now;
                    self.map.retain(|_, g| !(g.expiry > 0 && now > g.expiry));
                }
                self.key_max = self.map.iter().map(|(k, g)| (k.clone(), g.ts)).collect();
                Ok(())
            }
            Op::Advance(_) => Ok(()),
            Op::Sweep => {
                let now = self.now;
                let with_ttl = self.map.values().filter(|g| g.expiry > 0).count() as u64;
                let dead: Vec<Vec<u8>> =
                    self.map.iter().filter(|(_, g)| g.expiry > 0 && g.expiry < now).map(|(k, _)| k.clone()).collect();
                // The sweeper works on any store, TTL switch or not.
                let want = Out::Two(with_ttl, dead.len() as u64);
                if &want != out {
                    return Err(format!("C11: sweep sampled/expired {} but the model expects {}", out.brief(), want.brief()));
                }
                for k in dead {
                    self.map.remove(&k);
                }
                Ok(())
            }
            Op::Tick => Self::expect(t, op, Out::Unit, out),
        }
    }

    /// Compare the store's structural dump with the model. Returns violations.
    pub fn check_dump(&self, d: &StoreDump) -> Vec<String> {
        let mut v = Vec::new();
        let keys: Vec<&Vec<u8>> = d.records.iter().map(|r| &r.key).collect();
        let want: Vec<&Vec<u8>> = self.map.keys().collect();
        if keys != want {
            v.push(format!(
                "C01: hash index holds keys {:?} but the model holds {:?}",
                keys.iter().map(|k| crate::util::show(k)).collect::<Vec<_>>(),
                want.iter().map(|k| crate::util::show(k)).collect::<Vec<_>>()
            ));
            return v;
        }
        for r in &d.records {
            let g = &self.map[&r.key];
            if r.timestamp != g.ts || r.ttl_expiry != g.expiry || r.value_len != g.value.len() {
                v.push(format!(
                    "C01: key {} has (ts={}, expiry={}, len={}) but the model has (ts={}, expiry={}, len={})",
                    crate::util::show(&r.key),
                    r.timestamp,
                    r.ttl_expiry,
                    r.value_len,
                    g.ts,
                    g.expiry,
                    g.value.len()
                ));
            }
            if let Some(res) = &r.resident {
                if res != &g.value {
                    v.push(format!("C01: resident value of {} differs from the model", crate::util::show(&r.key)));
                }
            }
            if r.refcount == 0 {
                v.push(format!("C01: current generation of {} is marked superseded (refcount 0)", crate::util::show(&r.key)));
            }
        }
        let tree: Vec<(&Vec<u8>, usize)> = d.tree.iter().map(|(k, _, p)| (k, *p)).collect();
        let hash: Vec<(&Vec<u8>, usize)> = d.records.iter().map(|r| (&r.key, r.ptr)).collect();
        if tree != hash {
            v.push("C14: ordered index and hash index disagree at quiescence".into());
        }
        if d.record_count as usize != self.map.len() {
            v.push(format!("C13: len() counter is {} but {} keys are live", d.record_count, self.map.len()));
        }
        if d.memory_usage != self.usage() {
            v.push(format!(
                "C13: memory_usage() is {} but the live keys account for {}",
                d.memory_usage,
                self.usage()
            ));
        }
        if let Some(limit) = self.cfg.max_memory {
            if d.memory_usage > limit && self.usage() <= limit {
                v.push(format!("C13: memory_usage() {} exceeds the limit {}", d.memory_usage, limit));
            }
        }
        v
    }
}
