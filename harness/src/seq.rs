//! SEQ — explicit-state breadth-first search over the real store's transition
//! function. Every transition is executed on a fresh real store by replaying the
//! history that reaches it; the reference model is stepped in lock-step.

use crate::model::Model;
use crate::session::IoEv;
use crate::sut::{Cfg, Op, Out, Sut, Tables, T0};
use crate::util::{hash64, par_for_each, show, Deadline};
use serde_json::{json, Value};
use std::collections::{BTreeMap, HashSet};
use std::sync::atomic::{AtomicBool, AtomicU64, Ordering};
use std::sync::Mutex;

#[derive(Clone)]
pub struct Suite {
    pub name: String,
    pub cfg: Cfg,
    pub tables: Tables,
    pub ops: Vec<Op>,
    pub depth: usize,
    /// Run a second store with this configuration in lock-step and require
    /// identical results (cache transparency).
    pub shadow: Option<Cfg>,
    /// Record the device-write log of every path (for the crash engine).
    pub log_io: bool,
    /// BFS levels that are explored without looking at the time cap
    pub uncapped_levels: usize,
    /// Maximum number of Flush/Reopen/Tick symbols per history (0 = unlimited).
    pub max_heavy: usize,
    /// After the last operation re-read every key and the full range.
    pub readback: bool,
}

#[derive(Clone, Debug, Default)]
pub struct PathOutcome {
    pub outs: Vec<Out>,
    pub ts: Vec<u64>,
    pub violation: Option<String>,
    pub machinery: Option<String>,
    pub canon: u64,
    pub outs_hash: u64,
    /// (op kind, tier of the target key before the op) of the last operation
    pub cell: Option<(String, String)>,
    pub observations: Vec<String>,
    pub log: Vec<IoEv>,
    /// For each op index: log position at op begin/end (only with log_io).
    pub final_model: Option<Model>,
    /// model contents after each operation (only with log_io)
    pub snapshots: Vec<std::collections::BTreeMap<Vec<u8>, crate::model::Gen>>,
    /// structural violations found on the live store right after an acknowledged flush
    pub flush_checks: Vec<String>,
    pub image: Option<Vec<u8>>,
}

fn op_kind(op: &Op) -> &'static str {
    match op {
        Op::Get(_) => "get",
        Op::GetBytes(_) => "get_bytes",
        Op::GetSize(_) => "get_size",
        Op::Contains(_) => "contains",
        Op::Len => "len",
        Op::GetTtl(_) => "get_ttl",
        Op::Insert { ttl, bytes, .. } => match (*ttl > 0, *bytes) {
            (false, false) => "insert",
            (false, true) => "insert_bytes",
            (true, false) => "insert_ttl",
            (true, true) => "insert_bytes_ttl",
        },
        Op::Delete { .. } => "delete",
        Op::Cas { .. } => "cas",
        Op::Incr { .. } => "incr",
        Op::Ifa { .. } => "insert_if_absent",
        Op::Patch { .. } => "json_patch",
        Op::UpdateTtl { .. } => "update_ttl",
        Op::Persist(_) => "persist",
        Op::Range { .. } => "range",
        Op::Flush => "flush",
        Op::Reopen => "reopen",
        Op::Advance(_) => "advance",
        Op::Sweep => "sweep",
        Op::Tick => "tick",
    }
}

fn op_key(op: &Op) -> Option<u8> {
    match *op {
        Op::Get(k) | Op::GetBytes(k) | Op::GetSize(k) | Op::Contains(k) | Op::GetTtl(k) | Op::Persist(k) => Some(k),
        Op::Insert { k, .. }
        | Op::Delete { k, .. }
        | Op::Cas { k, .. }
        | Op::Incr { k, .. }
        | Op::Ifa { k, .. }
        | Op::Patch { k, .. }
        | Op::UpdateTtl { k, .. } => Some(k),
        _ => None,
    }
}

pub fn is_heavy(op: &Op) -> bool {
    matches!(op, Op::Flush | Op::Reopen | Op::Tick)
}

/// Tier of a key in the dump: absent / resident / buffered-resident / disk / disk+cached / deferred
pub fn tier_of(d: &feoxdb::verif::StoreDump, key: &[u8], now: u64, ttl: bool) -> String {
    let Some(r) = d.records.iter().find(|r| r.key == key) else { return "absent".into() };
    let mut s = if r.deferred && r.sector == 0 && r.resident.is_none() {
        "deferred".to_string()
    } else if r.resident.is_some() && r.sector == 0 {
        "resident".to_string()
    } else if r.resident.is_some() {
        "resident+disk".to_string()
    } else if d.cache.iter().any(|c| c.key == key && c.record_ptr == Some(r.ptr)) {
        "cached".to_string()
    } else {
        "disk".to_string()
    };
    if ttl && r.ttl_expiry > 0 && now > r.ttl_expiry {
        s.push_str("+expired");
    }
    s
}

/// Time values are canonicalised by rank plus gap class: two states whose time
/// values are order-isomorphic, with identical small gaps (<= 16, so that the
/// `last + 1` clock rule behaves identically for any remaining depth) and identical
/// gap classes around the TTL quanta (1 s, 1000 s), have the same futures under the
/// alphabets used here. `VERIF_CANON=exact` switches to exact values (finer, slower).
fn gap_class(g: u64) -> u64 {
    const S: u64 = 1_000_000_000;
    const K: u64 = 1_000 * S;
    if g <= 16 {
        g
    } else if g + 16 >= S && g <= S + 16 {
        100 + (g + 16 - S)
    } else if g + 16 >= K && g <= K + 16 {
        200 + (g + 16 - K)
    } else if g < S {
        1000
    } else if g < K {
        1001
    } else {
        1002
    }
}

struct TimeCanon {
    exact: bool,
    sorted: Vec<u64>,
}

impl TimeCanon {
    fn new(mut values: Vec<u64>) -> TimeCanon {
        let exact = std::env::var("VERIF_CANON").map(|v| v == "exact").unwrap_or(false);
        values.extend_from_slice(&[0, 1, crate::suites::TS_A, crate::suites::TS_B, crate::suites::FUT, u64::MAX, crate::sut::T0]);
        values.sort_unstable();
        values.dedup();
        TimeCanon { exact, sorted: values }
    }
    fn code(&self, v: u64) -> u64 {
        if self.exact {
            v
        } else {
            self.sorted.binary_search(&v).map(|i| i as u64).unwrap_or(u64::MAX)
        }
    }
    fn signature(&self) -> Vec<u8> {
        let mut p = Vec::new();
        if !self.exact {
            for w in self.sorted.windows(2) {
                p.extend_from_slice(&gap_class(w[1] - w[0]).to_le_bytes());
            }
            // which slots are the fixed constants
            for c in [crate::suites::TS_A, crate::suites::TS_B, crate::suites::FUT, u64::MAX, crate::sut::T0] {
                p.extend_from_slice(&self.code(c).to_le_bytes());
            }
        }
        p
    }
}

fn canon(s: &Suite, sut: &Sut, model: &Model, d: &feoxdb::verif::StoreDump) -> u64 {
    let mut times = vec![sut.now()];
    for key in s.tables.keys.iter().filter(|k| !k.is_empty() && k.len() <= 100 * 1024) {
        times.push(sut.store().verif_clock_last(key));
    }
    for r in &d.records {
        times.push(r.timestamp);
        times.push(r.ttl_expiry);
    }
    for b in d.buffered.iter().chain(d.retirements.iter()) {
        times.push(b.timestamp);
    }
    times.push(model.max_seen);
    times.extend(model.key_max.values().copied());
    let tc = TimeCanon::new(times);
    let mut parts: Vec<Vec<u8>> = Vec::new();
    parts.push(tc.signature());
    parts.push(tc.code(model.max_seen).to_le_bytes().to_vec());
    for (k, v) in &model.key_max {
        let mut p = k.clone();
        p.extend_from_slice(&tc.code(*v).to_le_bytes());
        parts.push(p);
    }
    parts.push(tc.code(sut.now()).to_le_bytes().to_vec());
    for (i, key) in s.tables.keys.iter().enumerate() {
        let mut p = vec![i as u8];
        if key.is_empty() || key.len() > 100 * 1024 {
            parts.push(p);
            continue;
        }
        p.extend_from_slice(&tc.code(sut.store().verif_clock_last(key)).to_le_bytes());
        if let Some(r) = d.records.iter().find(|r| &r.key == key) {
            p.extend_from_slice(&tc.code(r.timestamp).to_le_bytes());
            p.extend_from_slice(&tc.code(r.ttl_expiry).to_le_bytes());
            p.extend_from_slice(&(r.value_len as u64).to_le_bytes());
            p.push(r.resident.is_some() as u8);
            p.extend_from_slice(&r.sector.to_le_bytes());
            p.push(r.deferred as u8);
            p.push(d.cache.iter().any(|c| &c.key == key && c.record_ptr == Some(r.ptr)) as u8);
            if let Some(g) = model.map.get(key) {
                p.extend_from_slice(&hash64(&[&g.value]).to_le_bytes());
            }
        } else {
            p.push(0xff);
        }
        parts.push(p);
    }
    let mut p = Vec::new();
    for b in &d.buffered {
        p.push(b.shard as u8);
        p.extend_from_slice(b.op.as_bytes());
        p.extend_from_slice(&hash64(&[&b.key]).to_le_bytes());
        p.extend_from_slice(&tc.code(b.timestamp).to_le_bytes());
        p.extend_from_slice(&b.sector.to_le_bytes());
    }
    p.push(0xfe);
    let mut rets: Vec<_> =
        d.retirements.iter().map(|b| (hash64(&[&b.key]), tc.code(b.timestamp), b.sector, b.work_status)).collect();
    rets.sort();
    for r in rets {
        p.extend_from_slice(&r.0.to_le_bytes());
        p.extend_from_slice(&r.1.to_le_bytes());
        p.extend_from_slice(&r.2.to_le_bytes());
        p.extend_from_slice(&r.3.to_le_bytes());
    }
    p.push(0xfd);
    for (a, b) in &d.free_runs {
        p.extend_from_slice(&a.to_le_bytes());
        p.extend_from_slice(&b.to_le_bytes());
    }
    p.push(0xfc);
    for c in &d.cache {
        p.extend_from_slice(&hash64(&[&c.key]).to_le_bytes());
        // (whether the cached generation's allocation is still alive depends on when the
        // flush worker drops its queue entries: superseded either way, same behaviour)
        p.push(c.referenced as u8);
        p.push(d.records.iter().any(|r| Some(r.ptr) == c.record_ptr) as u8);
    }
    p.extend_from_slice(&d.keys_with_ttl.to_le_bytes());
    parts.push(p);
    let refs: Vec<&[u8]> = parts.iter().map(|p| p.as_slice()).collect();
    hash64(&refs)
}

/// The full-range bounds used by read-back: the smallest and a very large key.
fn readback_ops(s: &Suite) -> Vec<Op> {
    let mut v = Vec::new();
    for i in 0..s.tables.keys.len() as u8 {
        v.push(Op::Get(i));
        v.push(Op::GetBytes(i));
    }
    v.push(Op::Len);
    v
}

fn create_sut(s: &Suite, cfg: Cfg, tag: &str) -> Result<Sut, String> {
    create_sut_logged(s, cfg, tag, false).map(|(s, _)| s)
}

fn create_sut_logged(s: &Suite, cfg: Cfg, tag: &str, log: bool) -> Result<(Sut, Vec<u8>), String> {
    // Keys of the alphabet must map to pairwise distinct version-clock shards so that
    // automatic timestamps are a deterministic function of the history.
    for _ in 0..200 {
        let (sut, base) = Sut::create_logged(cfg, tag, log)?;
        let mut shards: Vec<usize> = s
            .tables
            .keys
            .iter()
            .filter(|k| !k.is_empty() && k.len() <= 100 * 1024)
            .map(|k| sut.store().verif_clock_shard_of(k))
            .collect();
        let n = shards.len();
        shards.sort();
        shards.dedup();
        if cfg.same_shard {
            // fixed hasher seeds, keys chosen to collide (suites::colliding_key): one shard, every time
            if shards.len() > 1 {
                return Err("the alphabet keys of a same-shard suite do not share a version-clock shard".into());
            }
            return Ok((sut, base));
        }
        if shards.len() == n {
            return Ok((sut, base));
        }
    }
    Err("could not build a store with distinct clock shards for the alphabet keys".into())
}

/// Execute one history on a fresh store. `expect_outs_hash`: hash of the outcomes the
/// prefix (all but the last op) produced when it was first explored.
pub fn run_path(s: &Suite, hist: &[u16], parent_outs_hash: Option<u64>, verbose: bool) -> PathOutcome {
    crate::util::set_context(serde_json::json!({"engine": "seq", "suite": s.name, "history_indices": hist, "history": describe_hist(s, hist)}));
    let mut po = PathOutcome::default();
    let mut sut = match create_sut_logged(s, s.cfg, "seq", s.log_io) {
        Ok((sut, base)) => {
            if s.log_io {
                // the log starts before the store first touches the device
                po.image = Some(base);
            }
            sut
        }
        Err(e) => {
            po.machinery = Some(e);
            return po;
        }
    };
    let mut shadow = match s.shadow {
        Some(cfg) => match create_sut(s, cfg, "shadow") {
            Ok(s) => Some(s),
            Err(e) => {
                po.machinery = Some(e);
                return po;
            }
        },
        None => None,
    };
    let mut model = Model::new(s.cfg, T0);
    let full_range = (s.tables.bounds.len() >= 2).then(|| Op::Range {
        lo: 0,
        hi: (s.tables.bounds.len() - 1) as u8,
        limit: usize::MAX / 2,
    });

    for (i, &oi) in hist.iter().enumerate() {
        let op = s.ops[oi as usize];
        let last = i + 1 == hist.len();
        if last {
            if let Some(k) = op_key(&op) {
                let key = &s.tables.keys[k as usize];
                if !key.is_empty() && key.len() < 100 * 1024 {
                    let d = sut.store().verif_dump();
                    po.cell = Some((op_kind(&op).to_string(), tier_of(&d, key, sut.now(), s.cfg.ttl)));
                }
            }
            if let Some(h) = parent_outs_hash {
                let got = hash64(&[format!("{:?}", po.outs).as_bytes()]);
                if got != h {
                    po.machinery = Some(format!(
                        "nondeterministic replay of prefix {:?}: outcomes differ from the first execution",
                        &hist[..i]
                    ));
                    return po;
                }
            }
        }
        sut.sess.mark(1, i as u64);
        let out = sut.apply(&s.tables, &op);
        let ts = crate::sched::take_thread_timestamp();
        if matches!(op, Op::Reopen) && out == Out::Unit && !s.log_io {
            // a reopened store draws new hash seeds: re-establish pairwise distinct
            // version-clock shards for the alphabet keys (reopening again is a no-op logically)
            for _ in 0..100 {
                let mut shards: Vec<usize> = s
                    .tables
                    .keys
                    .iter()
                    .filter(|k| !k.is_empty() && k.len() <= 100 * 1024)
                    .map(|k| sut.store().verif_clock_shard_of(k))
                    .collect();
                let n = shards.len();
                shards.sort();
                shards.dedup();
                if shards.len() == n || s.cfg.same_shard || sut.reopen().is_err() {
                    break;
                }
            }
        }
        sut.sess.mark(2, i as u64);
        model.now = sut.now();
        if verbose {
            println!("  [{i}] {:<40} -> {}   (ts {})", s.tables.describe(&op), out.brief(), ts);
        }
        if let Some(sh) = shadow.as_mut() {
            let out2 = sh.apply(&s.tables, &op);
            sut.sess.install();
            if out2 != out {
                po.violation = Some(format!(
                    "C16: {} returned {} with {} but {} with {}",
                    s.tables.describe(&op),
                    out.brief(),
                    s.cfg.name(),
                    out2.brief(),
                    sh.cfg.name()
                ));
            }
        }
        let verdict = model.step(&s.tables, &op, &out, ts);
        if s.log_io {
            po.snapshots.push(model.map.clone());
            if matches!(op, Op::Flush | Op::Reopen | Op::Tick) && out == Out::Unit {
                let d = sut.store().verif_dump();
                if d.buffered.is_empty() && d.retirements.is_empty() {
                    po.flush_checks.extend(crate::crash::structural_live(&s.cfg, &d));
                }
            }
        }
        po.outs.push(out);
        po.ts.push(ts);
        if let Err(e) = verdict {
            if let Some(m) = e.strip_prefix("MACHINERY: ") {
                // "no timestamp was reported": either the harness lost the note, or the
                // call reported success without ever publishing a new generation. The
                // store itself decides: if the key's generation is what it was before
                // the call, nothing was written.
                let unchanged = m.contains("none was reported by the hook")
                    && op_key(&op).is_some_and(|k| {
                        let key = &s.tables.keys[k as usize];
                        let d = sut.store().verif_dump();
                        let now = d.records.iter().find(|r| &r.key == key).map(|r| (r.timestamp, r.ttl_expiry));
                        // the model was not advanced by the failed step: it still holds the generation before the call
                        let before = model.map.get(key).map(|g| (g.ts, g.expiry));
                        now.is_some() && now == before
                    });
                // a new generation exists but its timestamp was not drawn from the version
                // clock (no note): judge the timestamp the generation really carries
                let carried = if !unchanged && m.contains("none was reported by the hook") {
                    op_key(&op).and_then(|k| {
                        let key = &s.tables.keys[k as usize];
                        let d = sut.store().verif_dump();
                        d.records.iter().find(|r| &r.key == key).map(|r| r.timestamp)
                    })
                } else {
                    None
                };
                if let Some(ts_carried) = carried.filter(|t| *t != 0) {
                    let out_again = po.outs.last().cloned().unwrap_or(Out::Unit);
                    match model.step(&s.tables, &op, &out_again, ts_carried) {
                        Err(e2) if !e2.starts_with("MACHINERY") => po.violation = Some(format!("{e2} (the timestamp was not drawn from the version clock; judged on the timestamp the new generation carries)")),
                        Err(e2) => po.machinery = Some(e2),
                        // every constraint holds for the carried timestamp: nothing to report
                        // (the note may simply be missing); the history goes on with it
                        Ok(()) => {}
                    }
                } else if unchanged {
                    po.violation = Some(format!(
                        "C01: {} returned {} (accepted) but no new generation of the key was published: its timestamp and expiry are what they were before the call",
                        s.tables.describe(&op),
                        po.outs.last().map(|o| o.brief()).unwrap_or_default()
                    ));
                } else {
                    po.machinery = Some(m.to_string());
                }
            } else {
                po.violation = Some(e);
            }
        }
        if po.violation.is_some() || po.machinery.is_some() {
            return po;
        }
    }
    po.outs_hash = hash64(&[format!("{:?}", po.outs).as_bytes()]);

    // structural comparison + canonical state
    let d = sut.store().verif_dump();
    let problems = model.check_dump(&d);
    if let Some(p) = problems.into_iter().next() {
        po.violation = Some(p);
        return po;
    }
    po.canon = canon(s, &sut, &model, &d);

    // read-back on this (now discarded) instance
    if s.readback {
        let mut extra = readback_ops(s);
        if let Some(r) = full_range {
            extra.push(r);
        }
        for op in extra {
            let out = sut.apply(&s.tables, &op);
            let ts = crate::sched::take_thread_timestamp();
            if let Some(sh) = shadow.as_mut() {
                let out2 = sh.apply(&s.tables, &op);
                sut.sess.install();
                if out2 != out {
                    po.violation = Some(format!(
                        "C16: read-back {} returned {} with cache and {} without",
                        s.tables.describe(&op),
                        out.brief(),
                        out2.brief()
                    ));
                    return po;
                }
            }
            if let Err(e) = model.step(&s.tables, &op, &out, ts) {
                po.violation = Some(format!("after the history, read-back: {e}"));
                return po;
            }
        }
        let d2 = sut.store().verif_dump();
        if let Some(p) = model.check_dump(&d2).into_iter().next() {
            po.violation = Some(format!("after read-back: {p}"));
            return po;
        }
    }
    po.observations = std::mem::take(&mut model.observations);
    if s.log_io {
        // include the clean close in the log
        sut.sess.mark(3, 0);
        sut.close();
        sut.sess.mark(4, 0);
        po.log = sut.sess.take_log();
    }
    po.final_model = Some(model);
    po
}

pub struct ExploreResult {
    pub states: u64,
    pub transitions: u64,
    pub max_depth_completed: usize,
    pub complete: bool,
    pub cells: BTreeMap<String, u64>,
    pub violations: Vec<(Vec<u16>, String)>,
    pub machinery: Vec<String>,
    pub observations: BTreeMap<String, u64>,
    pub distinct_outcomes: u64,
    pub samples: Vec<Value>,
}

pub fn describe_hist(s: &Suite, hist: &[u16]) -> Vec<String> {
    hist.iter().map(|&i| s.tables.describe(&s.ops[i as usize])).collect()
}

pub fn replay_value(s: &Suite, hist: &[u16]) -> Value {
    json!({
        "engine": "seq",
        "suite": s.name,
        "config": s.cfg.name(),
        "history_indices": hist,
        "history": describe_hist(s, hist),
        "keys": s.tables.keys.iter().map(|k| show(k)).collect::<Vec<_>>(),
    })
}

/// Breadth-first exploration to `s.depth`. `on_path` is called for every executed
/// history (used by the crash engine to consume device logs).
pub fn explore(
    s: &Suite,
    deadline: &Deadline,
    threads: usize,
    on_path: Option<&(dyn Fn(&Suite, &[u16], &PathOutcome) + Sync)>,
) -> ExploreResult {
    let seen: Mutex<HashSet<u64>> = Mutex::new(HashSet::new());
    let outcomes: Mutex<HashSet<u64>> = Mutex::new(HashSet::new());
    let cells: Mutex<BTreeMap<String, u64>> = Mutex::new(BTreeMap::new());
    let observations: Mutex<BTreeMap<String, u64>> = Mutex::new(BTreeMap::new());
    let violations: Mutex<Vec<(Vec<u16>, String)>> = Mutex::new(Vec::new());
    let machinery: Mutex<Vec<String>> = Mutex::new(Vec::new());
    let transitions = AtomicU64::new(0);
    let stop = AtomicBool::new(false);
    let mut samples = Vec::new();

    // level 0: the empty history
    let root = run_path(s, &[], None, false);
    if let Some(m) = &root.machinery {
        machinery.lock().unwrap().push(m.clone());
    }
    if let Some(v) = &root.violation {
        violations.lock().unwrap().push((vec![], v.clone()));
    }
    seen.lock().unwrap().insert(root.canon);
    let mut level: Vec<(Vec<u16>, u64)> = vec![(vec![], root.outs_hash)];
    let mut completed = 0;
    let mut complete = true;

    for depth in 0..s.depth {
        if level.is_empty() {
            completed = s.depth;
            break;
        }
        let next: Mutex<Vec<(Vec<u16>, u64)>> = Mutex::new(Vec::new());
        let items: Vec<(Vec<u16>, u64)> = std::mem::take(&mut level);
        par_for_each(items, threads, &stop, |_, (hist, outs_hash)| {
            let heavy = hist.iter().filter(|&&i| is_heavy(&s.ops[i as usize])).count();
            for oi in 0..s.ops.len() as u16 {
                // the first levels always complete, whatever the machine load: a suite
                // never ends without a fully covered depth (2 levels without crash
                // enumeration, 1 with it)
                if depth >= s.uncapped_levels && deadline.expired() {
                    stop.store(true, Ordering::Relaxed);
                    return;
                }
                if s.max_heavy > 0 && heavy >= s.max_heavy && is_heavy(&s.ops[oi as usize]) {
                    continue;
                }
                let mut h = hist.clone();
                h.push(oi);
                let po = run_path(s, &h, Some(outs_hash), false);
                transitions.fetch_add(1, Ordering::Relaxed);
                if let Some(m) = &po.machinery {
                    let mut g = machinery.lock().unwrap();
                    if g.len() < 5 {
                        g.push(format!("{m} (history {:?})", describe_hist(s, &h)));
                    }
                    continue;
                }
                if let Some((k, t)) = &po.cell {
                    *cells.lock().unwrap().entry(format!("{k}/{t}")).or_insert(0) += 1;
                }
                for o in &po.observations {
                    *observations.lock().unwrap().entry(o.clone()).or_insert(0) += 1;
                }
                if let Some(f) = on_path {
                    f(s, &h, &po);
                }
                if let Some(v) = &po.violation {
                    // capped per property tag: another property's violations never crowd out this check's own
                    let tag = crate::props::tag_of(v).unwrap_or_default();
                    let mut g = violations.lock().unwrap();
                    if g.iter().filter(|(_, m)| crate::props::tag_of(m).unwrap_or_default() == tag).count() < 16 {
                        g.push((h.clone(), v.clone()));
                    }
                    continue;
                }
                if let Ok(path) = std::env::var("VERIF_DUMP_CANON") {
                    use std::io::Write;
                    if let Ok(mut f) = std::fs::OpenOptions::new().create(true).append(true).open(path) {
                        let line = format!("{:?} {:016x} {:016x}\n", h, po.canon, po.outs_hash);
                        let _ = f.write_all(line.as_bytes());
                    }
                }
                outcomes.lock().unwrap().insert(po.outs_hash);
                if seen.lock().unwrap().insert(po.canon) {
                    next.lock().unwrap().push((h, po.outs_hash));
                }
            }
        });
        if stop.load(Ordering::Relaxed) {
            complete = false;
            break;
        }
        completed = depth + 1;
        level = next.into_inner().unwrap();
        level.sort();
        if samples.len() < 6 {
            if let Some((h, _)) = level.get(level.len() / 2) {
                samples.push(json!({"suite": s.name, "history": describe_hist(s, h)}));
            }
        }
    }

    let mut violations = violations.into_inner().unwrap();
    // shortest counterexample first
    violations.sort_by_key(|(h, _)| h.len());
    let states = seen.lock().unwrap().len() as u64;
    let distinct_outcomes = outcomes.lock().unwrap().len() as u64;
    ExploreResult {
        states,
        transitions: transitions.load(Ordering::Relaxed),
        max_depth_completed: completed,
        complete,
        cells: cells.into_inner().unwrap(),
        violations,
        machinery: machinery.into_inner().unwrap(),
        observations: observations.into_inner().unwrap(),
        distinct_outcomes,
        samples,
    }
}
