//! The per-store verification session: implements `feoxdb::verif::Handler`.
//! Records the device-write log, answers fault decisions, supplies the virtual
//! clock and switches, gates the periodic coordinator and (optionally) forwards
//! scheduling hooks to a controlled scheduler.

use feoxdb::verif::{Handler, IoAnswer, Tick};
use parking_lot::Mutex;
use std::sync::atomic::{AtomicBool, AtomicI64, AtomicU32, AtomicU64, AtomicUsize, Ordering};
use std::sync::Arc;

pub const F_NO_URING: u32 = 1;
pub const F_FORCE_SYNC: u32 = 2;
pub const F_FAST_POLL: u32 = 4;
pub const F_FAST_SHUTDOWN: u32 = 8;
/// reproducible hasher seeds: hash buckets and version-clock shards are a function of the key alone
pub const F_FIXED_HASHER: u32 = 16;
/// scheduling points after every update of the memory-usage counter (they lie inside the hash-bucket guard:
/// only for programs whose threads work on keys of pairwise distinct buckets)
pub const F_MEM_POINTS: u32 = 32;

#[derive(Clone, Debug)]
pub enum IoEv {
    /// Bytes handed to the device at a byte offset.
    W { off: u64, data: Arc<[u8]>, site: &'static str },
    /// fsync begins / ends (ok = it reported success and really synced).
    Fb,
    Fe { ok: bool },
    /// Harness marker: (kind, value). kind 1 = op begin (index), 2 = op end (index).
    Mark(u32, u64),
}

#[derive(Clone, Copy, Debug, PartialEq, Eq)]
pub enum CallKind {
    Write,
    Fsync,
}

#[derive(Default)]
pub struct FaultState {
    /// Answers for specific device-call indices.
    pub plan: Vec<(usize, IoAnswer)>,
    /// Every call with index >= this fails (before touching the device).
    pub fail_from: Option<usize>,
    /// 0: `fail_from` applies to every call; 1 record data, 2 retirement markers, 3 journal writes only
    pub fail_from_kind: u8,
    /// Kind of every device call seen, in order.
    pub calls: Vec<CallKind>,
    pub enabled: bool,
    /// Fail (before touching the device) this many writes into the data area (block >= 16).
    pub fail_data_writes: u32,
    /// Fail every fsync from now on.
    pub fail_fsyncs: bool,
    /// Fail every write from now on.
    pub fail_writes: bool,
    /// Answers on the io_uring path: (kind, index of the consultation of that kind).
    /// b'I' the k-th io_uring_enter is interrupted (EINTR), b'E' it fails (EIO);
    /// b'Q' the submission queue is full at the k-th push; b'C' the k-th completion
    /// reaped reports an error, b'S' a short write.
    pub uring_plan: Vec<(u8, usize)>,
    /// consultations so far: enter, push, completion
    pub uring_counts: [usize; 3],
    /// the last io_uring_enter was reported as failed: the caller must not see completions
    pub uring_hidden: bool,
}

/// Scheduling hooks are delegated to this trait object when present.
pub trait SchedHooks: Send + Sync {
    fn point(&self, name: &'static str, a: u64, b: u64);
    fn wait_until(&self, name: &'static str, ready: &dyn Fn() -> bool);
    fn yield_now(&self, name: &'static str) -> bool;
    fn adopted(&self, role: &'static str);
    fn retired(&self, role: &'static str);
    fn tick(&self, shutdown: &dyn Fn() -> bool) -> Tick;
    fn note(&self, name: &'static str, a: u64, b: u64);
    /// Called from the writing thread for every device write (I/O monitor).
    fn device_write(&self, off: u64, len: usize);
}

pub struct Session {
    pub log: Mutex<Vec<IoEv>>,
    pub log_enabled: AtomicBool,
    /// Virtual clock in ns; 0 = real clock.
    pub clock: AtomicU64,
    pub flags: AtomicU32,
    /// Periodic coordinator: <0 run freely, 0 skip every round, n>0 run n rounds then skip.
    pub tick_grants: AtomicI64,
    pub ticks_run: AtomicU64,
    pub fault: Mutex<FaultState>,
    pub last_ts: AtomicU64,
    pub ts_notes: AtomicU64,
    pub adopted: AtomicUsize,
    pub retired: AtomicUsize,
    pub device_writes: AtomicU64,
    pub fsyncs: AtomicU64,
    /// flush requests completed by the store's workers
    pub worker_done: AtomicU64,
    pub worker_begin: AtomicU64,
    /// workers that have seen a request (or shutdown) and not yet reported completion
    pub busy_workers: AtomicI64,
    pub coordinator_rounds: AtomicU64,
    /// Environment choice "the flush workers are slow": workers stay parked before
    /// taking their next request while this is set (sequential engines only).
    pub hold_workers: AtomicBool,
    /// CPU the store's background threads are pinned to (usize::MAX: all CPUs) — the
    /// home CPU of the thread that created the session.
    pub pin_cpu: AtomicUsize,
    pub sched: Mutex<Option<Arc<dyn SchedHooks>>>,
    /// Environment action run when the store reaches a named point (sequential engines).
    pub point_cb: Mutex<Option<Box<dyn Fn(&'static str) + Send + Sync>>>,
    pub points_seen: Mutex<Vec<&'static str>>,
    sched_on: AtomicBool,
    fsync_open: AtomicBool,
    /// io_uring completion ids pushed and not yet reaped on the store's ring (C20: an id must not be
    /// handed out again while an earlier submission carrying it is outstanding - its completion would
    /// be taken for the new write's)
    pub uring_ids: Mutex<std::collections::HashSet<u64>>,
    pub uring_id_clash: Mutex<Option<u64>>,
}

impl Session {
    pub fn new() -> Arc<Session> {
        Arc::new(Session {
            log: Mutex::new(Vec::new()),
            log_enabled: AtomicBool::new(false),
            clock: AtomicU64::new(0),
            flags: AtomicU32::new(F_FAST_POLL | F_FAST_SHUTDOWN),
            tick_grants: AtomicI64::new(0),
            ticks_run: AtomicU64::new(0),
            fault: Mutex::new(FaultState::default()),
            last_ts: AtomicU64::new(0),
            ts_notes: AtomicU64::new(0),
            adopted: AtomicUsize::new(0),
            retired: AtomicUsize::new(0),
            device_writes: AtomicU64::new(0),
            fsyncs: AtomicU64::new(0),
            worker_done: AtomicU64::new(0),
            worker_begin: AtomicU64::new(0),
            busy_workers: AtomicI64::new(0),
            coordinator_rounds: AtomicU64::new(0),
            hold_workers: AtomicBool::new(false),
            pin_cpu: AtomicUsize::new(crate::util::home_cpu().unwrap_or(usize::MAX)),
            sched: Mutex::new(None),
            point_cb: Mutex::new(None),
            points_seen: Mutex::new(Vec::new()),
            sched_on: AtomicBool::new(false),
            fsync_open: AtomicBool::new(false),
            uring_ids: Mutex::new(std::collections::HashSet::new()),
            uring_id_clash: Mutex::new(None),
        })
    }

    pub fn set_flag(&self, flag: u32, on: bool) {
        if on {
            self.flags.fetch_or(flag, Ordering::SeqCst);
        } else {
            self.flags.fetch_and(!flag, Ordering::SeqCst);
        }
    }

    pub fn set_sched(&self, sched: Option<Arc<dyn SchedHooks>>) {
        self.sched_on.store(sched.is_some(), Ordering::SeqCst);
        *self.sched.lock() = sched;
    }

    fn sched(&self) -> Option<Arc<dyn SchedHooks>> {
        if !self.sched_on.load(Ordering::Acquire) {
            return None;
        }
        self.sched.lock().clone()
    }

    pub fn mark(&self, kind: u32, value: u64) {
        if self.log_enabled.load(Ordering::Relaxed) {
            self.log.lock().push(IoEv::Mark(kind, value));
        }
    }

    pub fn take_log(&self) -> Vec<IoEv> {
        std::mem::take(&mut *self.log.lock())
    }

    pub fn log_len(&self) -> usize {
        self.log.lock().len()
    }

    pub fn install(self: &Arc<Self>) {
        feoxdb::verif::install(Some(self.clone() as Arc<dyn Handler>));
    }

    pub fn uninstall() {
        feoxdb::verif::install(None);
    }

    /// `class`: 0 fsync / unknown, 1 record data, 2 retirement marker, 3 journal, 4 metadata
    fn fault_answer(&self, kind: CallKind, class: u8) -> IoAnswer {
        let mut f = self.fault.lock();
        if !f.enabled {
            return IoAnswer::Proceed;
        }
        let index = f.calls.len();
        f.calls.push(kind);
        if let Some((_, a)) = f.plan.iter().find(|(i, _)| *i == index) {
            let a = *a;
            // A short write makes no sense for fsync: treat as fail-before.
            if kind == CallKind::Fsync && a == IoAnswer::Short {
                return IoAnswer::FailBefore;
            }
            return a;
        }
        if f.fail_from.is_some_and(|from| index >= from) && (f.fail_from_kind == 0 || f.fail_from_kind == class) {
            return IoAnswer::FailBefore;
        }
        IoAnswer::Proceed
    }
}

/// Debug aid: VERIF_TRACE_IO=1 prints every device write and injected answer on stderr.
fn trace_io() -> bool {
    static ON: std::sync::OnceLock<bool> = std::sync::OnceLock::new();
    *ON.get_or_init(|| std::env::var_os("VERIF_TRACE_IO").is_some())
}

impl Handler for Session {
    fn write_begin(&self, _site: &'static str, offset: u64, _data: &[u8]) -> IoAnswer {
        {
            let mut f = self.fault.lock();
            if f.fail_writes {
                return IoAnswer::FailBefore;
            }
            if f.fail_data_writes > 0 && offset >= 16 * 4096 {
                f.fail_data_writes -= 1;
                return IoAnswer::FailBefore;
            }
        }
        let class = if (4096..7 * 4096).contains(&offset) {
            3
        } else if offset < 16 * 4096 {
            4
        } else if _data.len() >= 2 && _data[0] == 0xCD && _data[1] == 0xAB {
            1
        } else {
            2
        };
        let a = self.fault_answer(CallKind::Write, class);
        if trace_io() && a != IoAnswer::Proceed {
            eprintln!("io: write {_site} block {} answered {a:?}", offset / 4096);
        }
        a
    }

    fn wrote(&self, site: &'static str, offset: u64, data: &[u8]) {
        self.device_writes.fetch_add(1, Ordering::Relaxed);
        if site == "uring" {
            // queued in a submission-queue entry: the kernel owns these bytes from now on
            crate::kledger::kernel_owns(data.as_ptr() as usize, data.len());
        }
        if trace_io() {
            eprintln!("io: write {site} block {} +{} blocks", offset / 4096, data.len().div_ceil(4096));
        }
        if let Some(s) = self.sched() {
            s.device_write(offset, data.len());
        }
        if self.log_enabled.load(Ordering::Relaxed) {
            self.log.lock().push(IoEv::W { off: offset, data: Arc::from(data), site });
        }
    }

    fn fsync_begin(&self) -> IoAnswer {
        if self.fault.lock().fail_fsyncs {
            return IoAnswer::FailBefore;
        }
        let a = self.fault_answer(CallKind::Fsync, 0);
        if a != IoAnswer::FailBefore {
            self.fsync_open.store(true, Ordering::SeqCst);
            if self.log_enabled.load(Ordering::Relaxed) {
                self.log.lock().push(IoEv::Fb);
            }
        }
        a
    }

    fn fsync_end(&self, _ok: bool) {
        // Log what the device did, not what the caller was told: with FailAfter the
        // sync happened (Fb was logged); with FailBefore nothing happened (no Fb).
        if self.fsync_open.swap(false, Ordering::SeqCst) {
            self.fsyncs.fetch_add(1, Ordering::Relaxed);
            if self.log_enabled.load(Ordering::Relaxed) {
                self.log.lock().push(IoEv::Fe { ok: true });
            }
        }
    }

    fn now(&self) -> Option<u64> {
        match self.clock.load(Ordering::Relaxed) {
            0 => None,
            t => Some(t),
        }
    }

    fn flag(&self, name: &'static str) -> bool {
        let f = self.flags.load(Ordering::Relaxed);
        match name {
            "no_uring" => f & F_NO_URING != 0,
            "force_sync_io" => f & F_FORCE_SYNC != 0,
            "fast_poll" => f & F_FAST_POLL != 0,
            "fast_shutdown" => f & F_FAST_SHUTDOWN != 0,
            "fixed_hasher" => f & F_FIXED_HASHER != 0,
            "mem_points" => f & F_MEM_POINTS != 0,
            "uring_cqe_hidden" => self.fault.lock().uring_hidden,
            "uring_enter_intr" | "uring_enter_fail" | "uring_sq_full" | "uring_cqe_error" | "uring_cqe_short" => {
                let mut f = self.fault.lock();
                // the first name of each pair opens a new consultation, the second refers to the same one
                let (kind, slot, opens) = match name {
                    "uring_enter_intr" => (b'I', 0, true),
                    "uring_enter_fail" => (b'E', 0, false),
                    "uring_sq_full" => (b'Q', 1, true),
                    "uring_cqe_error" => (b'C', 2, true),
                    _ => (b'S', 2, false),
                };
                if opens {
                    f.uring_counts[slot] += 1;
                }
                let index = f.uring_counts[slot].wrapping_sub(1);
                let yes = f.enabled && f.uring_plan.contains(&(kind, index));
                match kind {
                    b'I' => f.uring_hidden = false,
                    b'E' => f.uring_hidden = yes,
                    _ => {}
                }
                yes
            }
            _ => false,
        }
    }

    fn point(&self, name: &'static str, a: u64, b: u64) {
        if name.starts_with("mig_") {
            self.points_seen.lock().push(name);
            if let Some(cb) = self.point_cb.lock().as_ref() {
                cb(name);
            }
        }
        if let Some(s) = self.sched() {
            s.point(name, a, b);
        }
    }

    fn wait_until(&self, name: &'static str, ready: &dyn Fn() -> bool) {
        if let Some(s) = self.sched() {
            s.wait_until(name, ready);
        } else if name == "worker_recv" {
            // never block in the OS with an empty channel: poll, so that "a request is
            // queued" and "a worker is busy" together cover every instant
            while !ready() || self.hold_workers.load(Ordering::SeqCst) {
                std::thread::sleep(std::time::Duration::from_micros(50));
            }
        }
        if name == "worker_recv" {
            // the worker is about to take a request (or to shut down)
            self.busy_workers.fetch_add(1, Ordering::SeqCst);
        }
    }

    fn yield_now(&self, name: &'static str) -> bool {
        match self.sched() {
            Some(s) => s.yield_now(name),
            None => false,
        }
    }

    fn note(&self, name: &'static str, a: u64, b: u64) {
        if name == "worker_done" {
            self.worker_done.fetch_add(1, Ordering::SeqCst);
            self.busy_workers.fetch_sub(1, Ordering::SeqCst);
        } else if name == "coordinator_round_done" {
            self.coordinator_rounds.fetch_add(1, Ordering::SeqCst);
        } else if name == "worker_begin" {
            self.worker_begin.fetch_add(1, Ordering::SeqCst);
        } else if name == "uring_done" {
            crate::kledger::completion_seen(a as usize);
        } else if name == "uring_push" {
            if !self.uring_ids.lock().insert(a) {
                self.uring_id_clash.lock().get_or_insert(a);
            }
        } else if name == "uring_cqe" {
            self.uring_ids.lock().remove(&a);
        } else if name == "uring_ring_gone" {
            self.uring_ids.lock().clear();
        }
        if let Some(s) = self.sched() {
            s.note(name, a, b);
        }
    }

    fn adopted(&self, role: &'static str) {
        // Background threads inherit the narrow CPU mask used to size the store.
        match self.pin_cpu.load(Ordering::SeqCst) {
            usize::MAX => crate::util::set_affinity_full(),
            cpu => crate::util::set_affinity_one(cpu),
        }
        self.adopted.fetch_add(1, Ordering::SeqCst);
        if let Some(s) = self.sched() {
            s.adopted(role);
        }
    }

    fn retired(&self, role: &'static str) {
        self.retired.fetch_add(1, Ordering::SeqCst);
        if let Some(s) = self.sched() {
            s.retired(role);
        }
    }

    fn tick(&self, shutdown: &dyn Fn() -> bool) -> Tick {
        if let Some(s) = self.sched() {
            return s.tick(shutdown);
        }
        let g = self.tick_grants.load(Ordering::SeqCst);
        if g < 0 {
            self.ticks_run.fetch_add(1, Ordering::SeqCst);
            return Tick::Run;
        }
        if g == 0 {
            return Tick::Skip;
        }
        self.tick_grants.fetch_sub(1, Ordering::SeqCst);
        self.ticks_run.fetch_add(1, Ordering::SeqCst);
        Tick::Run
    }

    fn timestamp(&self, timestamp: u64) {
        self.last_ts.store(timestamp, Ordering::Relaxed);
        self.ts_notes.fetch_add(1, Ordering::Relaxed);
        crate::sched::note_thread_timestamp(timestamp);
    }
}
