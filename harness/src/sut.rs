//! System under test: a real `FeoxStore` plus its verification session, and the
//! operation alphabet applied to it.

use crate::layoutref;
use crate::session::{Session, F_FORCE_SYNC, F_NO_URING};
use crate::util::{show, with_visible_cpus};
use bytes::Bytes;
use feoxdb::{FeoxError, FeoxStore};
use std::panic::{catch_unwind, AssertUnwindSafe};
use std::sync::atomic::Ordering;
use std::sync::Arc;

pub const T0: u64 = 1_000_000_000_000_000_000; // virtual "now" at store creation (ns)
pub const SEC: u64 = 1_000_000_000;

#[derive(Clone, Copy, Debug, PartialEq, Eq, Hash)]
pub struct Cfg {
    pub persistent: bool,
    pub cache: bool,
    pub ttl: bool,
    /// On-disk format version of the device (1, 2 legacy; 3 current).
    pub format: u32,
    /// Number of data blocks (device = 16 reserved + data_blocks).
    pub data_blocks: u64,
    pub max_memory: Option<usize>,
    pub uring: bool,
    pub workers: usize,
    /// All alphabet keys on ONE version-clock shard (fixed hasher seeds, keys chosen to collide)
    /// instead of pairwise distinct ones.
    pub same_shard: bool,
    /// Scheduling points after every update of the memory-usage counter; the program's keys are
    /// placed in pairwise distinct hash buckets (the points lie inside the bucket guard).
    pub mem_points: bool,
}

impl Cfg {
    pub fn memory() -> Cfg {
        Cfg { persistent: false, cache: false, ttl: false, format: 3, data_blocks: 0, max_memory: None, uring: false, workers: 1, same_shard: false, mem_points: false }
    }
    pub fn persistent(data_blocks: u64) -> Cfg {
        Cfg { persistent: true, cache: true, ttl: false, format: 3, data_blocks, max_memory: None, uring: false, workers: 1, same_shard: false, mem_points: false }
    }
    pub fn name(&self) -> String {
        format!(
            "{}{}{}{}{}{}",
            if self.persistent { format!("disk{}v{}", self.data_blocks, self.format) } else { "mem".into() },
            if self.cache { "+cache" } else { "" },
            if self.ttl { "+ttl" } else { "" },
            match self.max_memory {
                Some(m) => format!("+lim{m}"),
                None => String::new(),
            },
            if self.uring { "+uring" } else { "" },
            if self.workers != 1 { format!("+w{}", self.workers) } else { String::new() },
        ) + if self.same_shard { "+oneshard" } else { "" }
    }
    pub fn total_blocks(&self) -> u64 {
        16 + self.data_blocks
    }
    pub fn max_key(&self) -> usize {
        if !self.persistent {
            100 * 1024
        } else if self.format == 1 {
            4096 - 22
        } else {
            4096 - 30
        }
    }
}

#[derive(Clone, PartialEq, Eq, Debug, Hash)]
pub enum Out {
    Unit,
    Bool(bool),
    Bytes(Vec<u8>),
    Int(i64),
    Size(usize),
    OptU64(Option<u64>),
    Pairs(Vec<(Vec<u8>, Vec<u8>)>),
    Two(u64, u64),
    Err(String),
    Panic(String),
}

impl Out {
    pub fn err(name: &str) -> Out {
        Out::Err(name.to_string())
    }
    pub fn is_err(&self) -> bool {
        matches!(self, Out::Err(_) | Out::Panic(_))
    }
    pub fn brief(&self) -> String {
        match self {
            Out::Bytes(b) => format!("Bytes({})", show(b)),
            Out::Pairs(p) => format!(
                "Pairs[{}]",
                p.iter().map(|(k, v)| format!("{}={}", show(k), show(v))).collect::<Vec<_>>().join(",")
            ),
            other => format!("{other:?}"),
        }
    }
}

pub fn err_name(e: &FeoxError) -> String {
    let s = format!("{e:?}");
    s.split(|c: char| !c.is_alphanumeric()).next().unwrap_or("").to_string()
}

fn lift<T>(r: Result<T, FeoxError>, f: impl FnOnce(T) -> Out) -> Out {
    match r {
        Ok(v) => f(v),
        Err(e) => Out::Err(err_name(&e)),
    }
}

/// One symbol of the operation alphabet. Keys, values, bounds and patches are
/// indices into the tables of an `Alphabet`.
#[derive(Clone, Copy, Debug, PartialEq, Eq, Hash)]
pub enum Op {
    Get(u8),
    GetBytes(u8),
    GetSize(u8),
    Contains(u8),
    Len,
    GetTtl(u8),
    /// ts 0 = automatic; ttl 0 = plain insert, >0 = insert_with_ttl; bytes = the zero-copy variant
    Insert { k: u8, v: u8, ts: u64, ttl: u64, bytes: bool },
    Delete { k: u8, ts: u64 },
    Cas { k: u8, expect: u8, new: u8, ts: u64, ttl: u64 },
    Incr { k: u8, delta: i64, ts: u64, ttl: u64 },
    Ifa { k: u8, v: u8 },
    Patch { k: u8, p: u8, ts: u64 },
    UpdateTtl { k: u8, secs: u64 },
    Persist(u8),
    Range { lo: u8, hi: u8, limit: usize },
    Flush,
    Reopen,
    /// Move the virtual clock: 0 = +1 s; 1/2/3 = to (nearest future expiry −1 ns / exactly / +1 ns)
    Advance(u8),
    Sweep,
    Tick,
}

#[derive(Clone, Debug, Default)]
pub struct Tables {
    pub keys: Vec<Vec<u8>>,
    pub values: Vec<Vec<u8>>,
    pub bounds: Vec<Vec<u8>>,
    pub patches: Vec<Vec<u8>>,
}

impl Tables {
    pub fn describe(&self, op: &Op) -> String {
        let k = |i: &u8| show(&self.keys[*i as usize]);
        let v = |i: &u8| show(&self.values[*i as usize]);
        let t = |ts: &u64| if *ts == 0 { String::new() } else { format!("@{ts}") };
        match op {
            Op::Get(i) => format!("get({})", k(i)),
            Op::GetBytes(i) => format!("get_bytes({})", k(i)),
            Op::GetSize(i) => format!("get_size({})", k(i)),
            Op::Contains(i) => format!("contains({})", k(i)),
            Op::Len => "len".into(),
            Op::GetTtl(i) => format!("get_ttl({})", k(i)),
            Op::Insert { k: i, v: j, ts, ttl, bytes } => format!(
                "insert{}{}({},{}){}",
                if *bytes { "_bytes" } else { "" },
                if *ttl > 0 { format!("_ttl{ttl}") } else { String::new() },
                k(i),
                v(j),
                t(ts)
            ),
            Op::Delete { k: i, ts } => format!("delete({}){}", k(i), t(ts)),
            Op::Cas { k: i, expect, new, ts, ttl } => {
                format!("cas({},{}->{}){}{}", k(i), v(expect), v(new), t(ts), if *ttl > 0 { format!("ttl{ttl}") } else { String::new() })
            }
            Op::Incr { k: i, delta, ts, ttl } => {
                format!("incr({},{}){}{}", k(i), delta, t(ts), if *ttl > 0 { format!("ttl{ttl}") } else { String::new() })
            }
            Op::Ifa { k: i, v: j } => format!("insert_if_absent({},{})", k(i), v(j)),
            Op::Patch { k: i, p, ts } => format!("json_patch({},{}){}", k(i), show(&self.patches[*p as usize]), t(ts)),
            Op::UpdateTtl { k: i, secs } => format!("update_ttl({},{})", k(i), secs),
            Op::Persist(i) => format!("persist({})", k(i)),
            Op::Range { lo, hi, limit } => {
                format!("range({}..={},{})", show(&self.bounds[*lo as usize]), show(&self.bounds[*hi as usize]), limit)
            }
            Op::Flush => "flush".into(),
            Op::Reopen => "reopen".into(),
            Op::Advance(kind) => format!("advance({kind})"),
            Op::Sweep => "sweep".into(),
            Op::Tick => "tick".into(),
        }
    }
}

pub struct Sut {
    pub store: Option<Arc<FeoxStore>>,
    pub path: Option<String>,
    pub cfg: Cfg,
    pub sess: Arc<Session>,
    owns_file: bool,
}

/// Find the next expiry strictly after `now` among the store's records.
fn next_expiry(store: &FeoxStore, now: u64) -> Option<u64> {
    store.verif_dump().records.iter().map(|r| r.ttl_expiry).filter(|e| *e > now).min()
}

impl Sut {
    fn build(cfg: &Cfg, path: Option<&str>, rotate: usize) -> Result<FeoxStore, FeoxError> {

        // more buckets when the program's keys have to lie in pairwise distinct ones
        let mut b = FeoxStore::builder().hash_bits(if cfg.mem_points { 10 } else { 4 }).enable_ttl(cfg.ttl);
        b = match cfg.max_memory {
            Some(m) => b.max_memory(m),
            None => b.no_memory_limit(),
        };
        if let Some(p) = path {
            b = b.device_path(p).file_size(cfg.total_blocks() * 4096).enable_caching(cfg.cache);
        }
        if path.is_some() {
            with_visible_cpus(cfg.workers * 2, rotate, || b.build()).expect("not enough CPUs for the requested worker count")
        } else {
            b.build()
        }
    }

    /// Create a fresh store (fresh device file if persistent). The calling thread's
    /// verification handler is set to a new session.
    pub fn create(cfg: Cfg, tag: &str) -> Result<Sut, String> {
        Self::create_logged(cfg, tag, false).map(|(s, _)| s)
    }

    /// Like `create`, optionally logging device I/O from before the device exists.
    /// Also returns the image the device had before the store touched it.
    pub fn create_logged(cfg: Cfg, tag: &str, log: bool) -> Result<(Sut, Vec<u8>), String> {
        let sess = Session::new();
        sess.log_enabled.store(log, Ordering::SeqCst);
        sess.clock.store(T0, Ordering::SeqCst);
        sess.set_flag(F_NO_URING, !cfg.uring);
        sess.set_flag(F_FORCE_SYNC, !cfg.uring);
        sess.set_flag(crate::session::F_FIXED_HASHER, cfg.same_shard);
        let base = if !cfg.persistent {
            Vec::new()
        } else if cfg.format < 3 {
            layoutref::empty_device(cfg.format, cfg.total_blocks(), T0 / SEC)
        } else {
            vec![0u8; cfg.total_blocks() as usize * 4096]
        };
        Self::create_with(cfg, tag, sess).map(|s| (s, base))
    }

    #[allow(dead_code)]
    fn create_unused(cfg: Cfg, tag: &str) -> Result<Sut, String> {
        let sess = Session::new();
        sess.clock.store(T0, Ordering::SeqCst);
        sess.set_flag(F_NO_URING, !cfg.uring);
        sess.set_flag(F_FORCE_SYNC, !cfg.uring);
        Self::create_with(cfg, tag, sess)
    }

    pub fn create_with(cfg: Cfg, tag: &str, sess: Arc<Session>) -> Result<Sut, String> {
        sess.install();
        sess.uring_ids.lock().clear(); // a new store brings a new ring
        let path = if cfg.persistent {
            let p = crate::util::scratch_file(tag);
            let p = p.to_str().unwrap().to_string();
            let _ = std::fs::remove_file(&p);
            if cfg.format < 3 {
                let now = sess.clock.load(Ordering::SeqCst) / SEC;
                let image = layoutref::empty_device(cfg.format, cfg.total_blocks(), now);
                std::fs::write(&p, image).map_err(|e| e.to_string())?;
            }
            Some(p)
        } else {
            None
        };
        let store = Self::build(&cfg, path.as_deref(), crate::util::COUNTER.fetch_add(1, Ordering::Relaxed))
            .map_err(|e| format!("create failed: {e:?}"))?;
        Ok(Sut { store: Some(Arc::new(store)), path, cfg, sess, owns_file: true })
    }

    /// Open an existing device file (recovery path).
    pub fn open_existing(cfg: Cfg, path: &str, sess: Arc<Session>) -> Result<Sut, FeoxError> {
        let _call = crate::util::in_call("open (recovery)");
        sess.install();
        sess.uring_ids.lock().clear();
        let store = Self::build(&cfg, Some(path), crate::util::COUNTER.fetch_add(1, Ordering::Relaxed))?;
        Ok(Sut { store: Some(Arc::new(store)), path: Some(path.to_string()), cfg, sess, owns_file: false })
    }

    pub fn store(&self) -> &Arc<FeoxStore> {
        self.store.as_ref().expect("store is open")
    }

    pub fn close(&mut self) {
        if let Some(store) = self.store.take() {
            let _call = crate::util::in_call("close (drop)");
            self.sess.hold_workers.store(false, Ordering::SeqCst);
            self.sess.install();
            drop(store);
            // every worker of that store has exited (a worker that saw the shutdown flag
            // in its visible wait counted itself busy and never reports completion)
            self.sess.busy_workers.store(0, Ordering::SeqCst);
        }
    }

    pub fn reopen(&mut self) -> Result<(), FeoxError> {
        self.close();
        self.sess.uring_ids.lock().clear();
        let path = self.path.clone().expect("persistent store");
        let store = Self::build(&self.cfg, Some(&path), crate::util::COUNTER.fetch_add(1, Ordering::Relaxed))?;
        self.store = Some(Arc::new(store));
        Ok(())
    }

    /// Wait until no flush request is queued and no worker is handling one. Exact: a
    /// worker counts as busy from the moment it has *seen* a queued request (before it
    /// takes it) until it reports completion. False on timeout.
    pub fn quiesce(&self, timeout_ms: u64) -> bool {
        let start = std::time::Instant::now();
        loop {
            // order matters: queued first, then busy (a request moves from queued to busy, never back)
            let queued = self.store().verif_requests_queued();
            let busy = self.sess.busy_workers.load(Ordering::SeqCst);
            if queued == 0 && busy <= 0 && self.store().verif_requests_queued() == 0 {
                return true;
            }
            if start.elapsed().as_millis() as u64 > timeout_ms {
                return false;
            }
            std::thread::sleep(std::time::Duration::from_micros(50));
        }
    }

    /// Grant the periodic coordinator exactly one round and wait until the round and
    /// all the work it requested have completed.
    pub fn coordinator_round(&self, timeout_ms: u64) -> Result<(), String> {
        if !self.quiesce(timeout_ms) {
            return Err("the flush workers did not become idle".into());
        }
        let r0 = self.sess.coordinator_rounds.load(Ordering::SeqCst);
        self.sess.tick_grants.store(1, Ordering::SeqCst);
        let start = std::time::Instant::now();
        while self.sess.coordinator_rounds.load(Ordering::SeqCst) == r0 {
            if start.elapsed().as_millis() as u64 > timeout_ms {
                return Err("the coordinator did not complete its round".into());
            }
            std::thread::sleep(std::time::Duration::from_micros(50));
        }
        if !self.quiesce(timeout_ms) {
            return Err("the flush workers did not finish the coordinator's requests".into());
        }
        Ok(())
    }

    /// Grant one coordinator round and wait for the coordinator alone (the workers
    /// may be held back by the environment).
    pub fn coordinator_round_only(&self, timeout_ms: u64) -> Result<(), String> {
        let r0 = self.sess.coordinator_rounds.load(Ordering::SeqCst);
        self.sess.tick_grants.store(1, Ordering::SeqCst);
        let start = std::time::Instant::now();
        while self.sess.coordinator_rounds.load(Ordering::SeqCst) == r0 {
            if start.elapsed().as_millis() as u64 > timeout_ms {
                return Err("the coordinator did not complete its round".into());
            }
            std::thread::sleep(std::time::Duration::from_micros(50));
        }
        Ok(())
    }

    pub fn now(&self) -> u64 {
        self.sess.clock.load(Ordering::SeqCst)
    }

    /// Wait until the write buffer and the retirement queue are empty (background
    /// work triggered by a granted tick). Returns false on timeout.
    pub fn wait_drained(&self, timeout_ms: u64) -> bool {
        let start = std::time::Instant::now();
        loop {
            let d = self.store().verif_dump();
            if d.buffered.is_empty() && d.retirements.is_empty() {
                return true;
            }
            if start.elapsed().as_millis() as u64 > timeout_ms {
                return false;
            }
            std::thread::sleep(std::time::Duration::from_micros(200));
        }
    }

    /// Apply one operation; never panics (a panic in the store becomes `Out::Panic`).
    pub fn apply(&mut self, t: &Tables, op: &Op) -> Out {
        let _call = crate::util::in_call("api call");
        self.sess.install();
        crate::sched::take_thread_timestamp();
        match *op {
            Op::Reopen => {
                return match catch_unwind(AssertUnwindSafe(|| self.reopen())) {
                    Ok(Ok(())) => Out::Unit,
                    Ok(Err(e)) => Out::Err(err_name(&e)),
                    Err(p) => Out::Panic(panic_text(p)),
                };
            }
            Op::Advance(kind) => {
                let now = self.now();
                let target = match (kind, next_expiry(self.store(), now)) {
                    (1, Some(e)) => e - 1,
                    (2, Some(e)) => e,
                    (3, Some(e)) => e.saturating_add(1),
                    _ => now.saturating_add(SEC),
                };
                self.sess.clock.store(target.max(now), Ordering::SeqCst);
                return Out::Unit;
            }
            Op::Tick => {
                if self.cfg.persistent {
                    if let Err(e) = self.coordinator_round(10_000) {
                        let _ = e;
                        return Out::err("TickNotCompleted");
                    }
                }
                return Out::Unit;
            }
            _ => {}
        }
        let store = self.store().clone();
        apply_op(&store, t, op)
    }
}

/// Apply a store-level operation (everything except Reopen / Advance / Tick) through
/// a shared handle; usable from several threads. Never panics.
pub fn apply_op(store: &Arc<FeoxStore>, t: &Tables, op: &Op) -> Out {
    let s = &**store;
    let r = catch_unwind(AssertUnwindSafe(|| match *op {
        Op::Get(k) => lift(s.get(&t.keys[k as usize]), Out::Bytes),
        Op::GetBytes(k) => lift(s.get_bytes(&t.keys[k as usize]), |b| Out::Bytes(b.to_vec())),
        Op::GetSize(k) => lift(s.get_size(&t.keys[k as usize]), Out::Size),
        Op::Contains(k) => Out::Bool(s.contains_key(&t.keys[k as usize])),
        Op::Len => Out::Size(s.len()),
        Op::GetTtl(k) => lift(s.get_ttl(&t.keys[k as usize]), Out::OptU64),
        Op::Insert { k, v, ts, ttl, bytes } => {
            let key = &t.keys[k as usize];
            let val = &t.values[v as usize];
            let ts = if ts == 0 { None } else { Some(ts) };
            let r = match (ttl > 0, bytes) {
                (false, false) => s.insert_with_timestamp(key, val, ts),
                (false, true) => s.insert_bytes_with_timestamp(key, Bytes::from(val.clone()), ts),
                (true, false) => s.insert_with_ttl_and_timestamp(key, val, ttl, ts),
                (true, true) => s.insert_bytes_with_ttl_and_timestamp(key, Bytes::from(val.clone()), ttl, ts),
            };
            lift(r, Out::Bool)
        }
        Op::Delete { k, ts } => {
            lift(s.delete_with_timestamp(&t.keys[k as usize], if ts == 0 { None } else { Some(ts) }), |_| Out::Unit)
        }
        Op::Cas { k, expect, new, ts, ttl } => lift(
            s.compare_and_swap_with_timestamp_and_ttl(
                &t.keys[k as usize],
                &t.values[expect as usize],
                &t.values[new as usize],
                if ts == 0 { None } else { Some(ts) },
                ttl,
            ),
            Out::Bool,
        ),
        Op::Incr { k, delta, ts, ttl } => lift(
            s.atomic_increment_with_timestamp_and_ttl(&t.keys[k as usize], delta, if ts == 0 { None } else { Some(ts) }, ttl),
            Out::Int,
        ),
        Op::Ifa { k, v } => lift(s.insert_if_absent(&t.keys[k as usize], &t.values[v as usize]), Out::Bool),
        Op::Patch { k, p, ts } => lift(
            s.json_patch_with_timestamp(&t.keys[k as usize], &t.patches[p as usize], if ts == 0 { None } else { Some(ts) }),
            |_| Out::Unit,
        ),
        Op::UpdateTtl { k, secs } => lift(s.update_ttl(&t.keys[k as usize], secs), |_| Out::Unit),
        Op::Persist(k) => lift(s.persist(&t.keys[k as usize]), |_| Out::Unit),
        Op::Range { lo, hi, limit } => lift(s.range_query(&t.bounds[lo as usize], &t.bounds[hi as usize], limit), Out::Pairs),
        Op::Flush => lift(s.flush(), |_| Out::Unit),
        Op::Sweep => {
            let (sampled, expired) = feoxdb::core::ttl_sweep::verif_sweep_once(store, 4096);
            Out::Two(sampled, expired)
        }
        Op::Reopen | Op::Advance(_) | Op::Tick => Out::err("NotASharedOp"),
    }));
    match r {
        Ok(out) => out,
        Err(p) => Out::Panic(panic_text(p)),
    }
}

pub fn panic_text(p: Box<dyn std::any::Any + Send>) -> String {
    if let Some(s) = p.downcast_ref::<&str>() {
        s.to_string()
    } else if let Some(s) = p.downcast_ref::<String>() {
        s.clone()
    } else {
        "panic".to_string()
    }
}

impl Drop for Sut {
    fn drop(&mut self) {
        self.close();
        if self.owns_file {
            if let Some(p) = &self.path {
                let _ = std::fs::remove_file(p);
            }
        }
        Session::uninstall();
    }
}
