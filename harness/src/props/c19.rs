//! C19 — TICK: write-behind is bounded. For every worker count 1..8, every shard,
//! several neighbour states and every write kind: perform the write, never call
//! flush(), grant coordinator rounds one at a time and require the write (and the
//! retirement of what it superseded) to be on the device after a bounded number of
//! rounds. Durability is judged on the image rebuilt from the device log (synced
//! writes only), recovered in a fresh handle.

use crate::session::{IoEv, Session, F_FORCE_SYNC, F_NO_URING};
use crate::sut::{Cfg, Sut, T0};
use crate::util::{par_for_each, show, Report, TempFile};
use serde_json::json;
use std::sync::atomic::{AtomicBool, AtomicU64, Ordering};
use std::sync::Mutex;

const BLOCK: usize = 4096;

#[derive(Clone, Copy, Debug, PartialEq)]
enum Kind {
    Insert,
    Overwrite,
    Delete,
    Sweep,
    /// the first flush attempt of the batch fails (three write attempts), then the device works again
    InsertAfterFailedBatch,
    /// 1100 writes into the same shard (crosses the 1024-entry "full" trigger)
    Burst,
    /// the same burst while the workers are slow: the owner's request channel is full
    /// when a coordinator round comes by; afterwards one more small write, no flush()
    TickOnFullChannel,
    /// exactly n new records drained as one batch (n around the points where the
    /// allocation-journal image grows by a block), then one more small write
    BatchOf(u16),
    /// one more write into the same shard before every coordinator round: a write must be
    /// durable two rounds after it was accepted, whatever arrives in its shard meanwhile
    Trickle,
    /// a dozen coordinator rounds with nothing to do, then an overwrite: the round that
    /// follows must still come promptly
    OverwriteAfterIdle,
    /// 1100 writes in one shard drained as one backlog (two journal-sized batches) while the
    /// first batch's record write fails three times; then the device works again
    BacklogAfterFailedBatch,
    /// n values of `mib` MiB each in one shard, drained at once: a burst that fills the
    /// write buffer by *size* (16 MiB), not by count; then one more small write
    SizeBurst(u8, u8),
}

#[derive(Clone, Copy, Debug, PartialEq)]
enum Neighbours {
    Idle,
    Busy,
}

/// Image of everything covered by a completed fsync.
fn durable_image(base: &[u8], log: &[IoEv]) -> Vec<u8> {
    let mut img = base.to_vec();
    let mut pending: Vec<(u64, std::sync::Arc<[u8]>)> = Vec::new();
    let mut covered = 0usize;
    for ev in log {
        match ev {
            IoEv::W { off, data, .. } => pending.push((*off, data.clone())),
            IoEv::Fb => covered = pending.len(),
            IoEv::Fe { .. } => {
                for (off, data) in pending.drain(..covered.min(pending.len())) {
                    let o = off as usize;
                    if o + data.len() <= img.len() {
                        img[o..o + data.len()].copy_from_slice(&data);
                    }
                }
                covered = 0;
            }
            IoEv::Mark(..) => {}
        }
    }
    img
}

/// Grant one coordinator round and wait until it and the work it requested are done.
fn one_round(sut: &Sut) -> Result<(), String> {
    sut.coordinator_round(20_000)
}

struct CaseResult {
    problems: Vec<String>,
    machinery: Option<String>,
    rounds: u32,
}

fn run_case(workers: usize, shard: usize, kind: Kind, nb: Neighbours) -> CaseResult {
    let mut res = CaseResult { problems: Vec::new(), machinery: None, rounds: 0 };
    let big = matches!(kind, Kind::Burst | Kind::TickOnFullChannel | Kind::BatchOf(_) | Kind::BacklogAfterFailedBatch);
    let mut cfg = Cfg::persistent(match kind {
        Kind::SizeBurst(n, mib) => (n as u64 + 1) * (mib as u64 * 256 + 2) + 64,
        _ if big => 1300,
        _ => 64,
    });
    cfg.workers = workers;
    cfg.ttl = kind == Kind::Sweep;
    cfg.cache = false;
    let (mut sut, base) = match Sut::create_logged(cfg, "tick", true) {
        Ok(x) => x,
        Err(e) => {
            res.machinery = Some(e);
            return res;
        }
    };
    let st = sut.store().clone();
    let shards = st.verif_dump().shards;
    if shards != workers {
        res.machinery = Some(format!("store built with {shards} shards, wanted {workers}"));
        return res;
    }
    // a key for every shard
    let mut key_of: Vec<Vec<Vec<u8>>> = vec![Vec::new(); shards];
    let want_per_shard = if big { 1101 } else if kind == Kind::Trickle { 8 } else if let Kind::SizeBurst(n, _) = kind { n as usize + 1 } else { 2 };
    let mut i = 0u32;
    while key_of.iter().enumerate().any(|(s, v)| v.len() < if s == shard { want_per_shard } else { 2 }) {
        let k = format!("key-{i}").into_bytes();
        let s = st.verif_shard_of(&k).unwrap();
        if key_of[s].len() < if s == shard { want_per_shard } else { 2 } {
            key_of[s].push(k);
        }
        i += 1;
        if i > 200_000 {
            res.machinery = Some("no key found for some shard".into());
            return res;
        }
    }
    let key = key_of[shard][0].clone();
    let mut expect_present: Vec<(Vec<u8>, Vec<u8>)> = Vec::new();
    let mut expect_absent: Vec<Vec<u8>> = Vec::new();
    // --- preparation (durable through flush(): allowed, it precedes the write under test)
    match kind {
        Kind::Overwrite | Kind::Delete | Kind::OverwriteAfterIdle => {
            st.insert(&key, b"old value").unwrap();
            st.flush().unwrap();
        }
        Kind::Sweep => {
            st.insert_with_ttl(&key, b"short lived", 1).unwrap();
            st.flush().unwrap();
            sut.sess.clock.store(T0 + 2_000_000_000, Ordering::SeqCst);
        }
        Kind::BacklogAfterFailedBatch => {
            // four durable keys of the shard: deleted (two) and overwritten (two) behind the backlog below
            for k in &key_of[shard][1096..1100] {
                st.insert(k, b"durable before the backlog").unwrap();
            }
            st.flush().unwrap();
        }
        _ => {}
    }
    if nb == Neighbours::Busy {
        for (s, ks) in key_of.iter().enumerate() {
            if s != shard {
                st.insert(&ks[1], b"neighbour traffic").unwrap();
                expect_present.push((ks[1].clone(), b"neighbour traffic".to_vec()));
            }
        }
    }
    // --- the write under test; from here on flush() is never called
    match kind {
        Kind::Insert | Kind::InsertAfterFailedBatch => {
            st.insert(&key, b"new value").unwrap();
            expect_present.push((key.clone(), b"new value".to_vec()));
        }
        Kind::Overwrite => {
            st.insert(&key, b"replacement").unwrap();
            expect_present.push((key.clone(), b"replacement".to_vec()));
        }
        Kind::OverwriteAfterIdle => {
            for i in 0..12 {
                if let Err(e) = sut.coordinator_round(5_000) {
                    res.problems.push(format!("C19: {kind:?} on shard {shard} of {workers}: idle round {} of 12: {e}", i + 1));
                    return res;
                }
            }
            st.insert(&key, b"replacement").unwrap();
            expect_present.push((key.clone(), b"replacement".to_vec()));
            // the coordinator must pick the work up promptly: a granted round that does not even
            // start within five seconds is not "the flush interval plus I/O time"
            if let Err(e) = sut.coordinator_round(5_000) {
                res.problems.push(format!(
                    "C19: {kind:?} on shard {shard} of {workers}: after twelve idle rounds an overwrite was accepted, but {e} within 5 s (the periodic flusher stopped polling)"
                ));
                return res;
            }
        }
        Kind::BacklogAfterFailedBatch => {
            sut.sess.hold_workers.store(true, Ordering::SeqCst);
            for k in &key_of[shard][..1096] {
                st.insert(k, b"backlog").unwrap();
                expect_present.push((k.clone(), b"backlog".to_vec()));
            }
            // ... and, behind more than one journal-sized batch of inserts, deletes and overwrites of
            // keys that are already on the device: the part of the drain that is never attempted when the
            // first batch fails carries retirements too
            for k in &key_of[shard][1096..1098] {
                st.delete(k).unwrap();
                expect_absent.push(k.clone());
            }
            for k in &key_of[shard][1098..1100] {
                st.insert(k, b"overwritten behind the backlog").unwrap();
                expect_present.push((k.clone(), b"overwritten behind the backlog".to_vec()));
            }
            sut.sess.fault.lock().fail_data_writes = 3;
            sut.sess.hold_workers.store(false, Ordering::SeqCst);
        }
        Kind::Delete => {
            st.delete(&key).unwrap();
            expect_absent.push(key.clone());
        }
        Kind::Sweep => {
            let (_, expired) = feoxdb::core::ttl_sweep::verif_sweep_once(&st, 4096);
            if expired != 1 {
                res.machinery = Some(format!("sweeper step expired {expired} keys, expected 1"));
                return res;
            }
            expect_absent.push(key.clone());
        }
        Kind::Burst => {
            for k in &key_of[shard][..1100] {
                st.insert(k, b"burst").unwrap();
                expect_present.push((k.clone(), b"burst".to_vec()));
            }
        }
        Kind::Trickle => {
            let mut trickled: Vec<Vec<u8>> = Vec::new();
            for i in 0..5 {
                let k = &key_of[shard][i];
                st.insert(k, b"trickle").unwrap();
                if i < 3 {
                    // accepted at least two rounds before the judgement below
                    trickled.push(k.clone());
                }
                if let Err(e) = one_round(&sut) {
                    res.problems.push(format!("C19: {kind:?} on shard {shard} of {workers}: {e}"));
                    return res;
                }
            }
            // durability of the first three writes is judged on the device as it stands now
            let log = sut.sess.log.lock().clone();
            let img = durable_image(&base, &log);
            let f = TempFile::new("tick-img");
            std::fs::write(&f.0, &img).unwrap();
            let s2 = Session::new();
            s2.clock.store(sut.now(), Ordering::SeqCst);
            s2.set_flag(F_NO_URING, true);
            s2.set_flag(F_FORCE_SYNC, true);
            let mut one = cfg;
            one.workers = 1;
            match Sut::open_existing(one, f.path(), s2) {
                Err(e) => res.problems.push(format!("C19: {kind:?}: the synced image does not reopen: {e:?}")),
                Ok(mut r) => {
                    for (k, v) in expect_present.iter() {
                        if r.store().get(k).ok().as_ref() != Some(v) {
                            res.problems.push(format!("C19: {kind:?} on shard {shard} of {workers}: neighbour key {} is not on the device after five coordinator rounds", show(k)));
                            break;
                        }
                    }
                    for (i, k) in trickled.iter().enumerate() {
                        if r.store().get(k).ok().as_deref() != Some(b"trickle".as_slice()) {
                            res.problems.push(format!(
                                "C19: {kind:?} on shard {shard} of {workers}: write {} of a trickle (one write into the shard before every coordinator round) is not on the device {} rounds after it was accepted",
                                i + 1,
                                5 - i
                            ));
                            break;
                        }
                    }
                    r.close();
                }
            }
            drop(st);
            sut.close();
            res.rounds = 2;
            return res;
        }
        Kind::BatchOf(n) => {
            // nothing is taken by a worker before all n are buffered: one batch of exactly n
            sut.sess.hold_workers.store(true, Ordering::SeqCst);
            for k in &key_of[shard][..n as usize] {
                st.insert(k, b"batch").unwrap();
                expect_present.push((k.clone(), b"batch".to_vec()));
            }
            sut.sess.hold_workers.store(false, Ordering::SeqCst);
            for _ in 0..2 {
                if let Err(e) = one_round(&sut) {
                    res.problems.push(format!("C19: {kind:?} on shard {shard} of {workers}: {e}"));
                    return res;
                }
            }
            let late = &key_of[shard][1100];
            st.insert(late, b"after the batch").unwrap();
            expect_present.push((late.clone(), b"after the batch".to_vec()));
        }
        Kind::SizeBurst(n, mib) => {
            // nothing is taken by a worker before all of it is buffered: one drain of n * mib MiB
            sut.sess.hold_workers.store(true, Ordering::SeqCst);
            for (i, k) in key_of[shard][..n as usize].iter().enumerate() {
                let mut v = vec![0x40 + i as u8; mib as usize * 1024 * 1024 - 100];
                v[0] = i as u8;
                st.insert(k, &v).unwrap();
                expect_present.push((k.clone(), v));
            }
            sut.sess.hold_workers.store(false, Ordering::SeqCst);
            for _ in 0..2 {
                if let Err(e) = one_round(&sut) {
                    res.problems.push(format!("C19: {kind:?} on shard {shard} of {workers}: {e}"));
                    return res;
                }
            }
            let late = &key_of[shard][n as usize];
            st.insert(late, b"after the burst").unwrap();
            expect_present.push((late.clone(), b"after the burst".to_vec()));
        }
        Kind::TickOnFullChannel => {
            sut.sess.hold_workers.store(true, Ordering::SeqCst);
            for k in &key_of[shard][..1100] {
                st.insert(k, b"burst").unwrap();
                expect_present.push((k.clone(), b"burst".to_vec()));
            }
            let queued = st.verif_requests_queued();
            if queued < 2 {
                sut.sess.hold_workers.store(false, Ordering::SeqCst);
                res.machinery = Some(format!("the burst left only {queued} requests queued; the owner's channel is not full"));
                return res;
            }
            // the tick that finds the channel full
            let r = sut.coordinator_round_only(20_000);
            sut.sess.hold_workers.store(false, Ordering::SeqCst);
            if let Err(e) = r {
                res.problems.push(format!("C19: {kind:?} on shard {shard} of {workers}: with the owner's request channel full, {e}"));
                return res;
            }
            if !sut.quiesce(20_000) {
                res.problems.push(format!("C19: {kind:?} on shard {shard} of {workers}: the workers did not drain the burst"));
                return res;
            }
            // the write under test comes after the episode
            let late = &key_of[shard][1100];
            st.insert(late, b"after the burst").unwrap();
            expect_present.push((late.clone(), b"after the burst".to_vec()));
        }
    }
    if kind == Kind::InsertAfterFailedBatch {
        sut.sess.fault.lock().fail_data_writes = 3;
    }
    // --- coordinator rounds, one at a time
    let max_rounds = if matches!(kind, Kind::InsertAfterFailedBatch | Kind::BacklogAfterFailedBatch) { 4 } else { 2 };
    let mut durable = false;
    let mut last_reason = String::new();
    for round in 1..=max_rounds {
        if let Err(e) = one_round(&sut) {
            res.problems.push(format!("C19: {e}"));
            return res;
        }
        res.rounds = round;
        sut.sess.fault.lock().fail_data_writes = 0;
        // judge durability on the synced image, in a fresh handle
        let log = sut.sess.log.lock().clone();
        let img = durable_image(&base, &log);
        let f = TempFile::new("tick-img");
        std::fs::write(&f.0, &img).unwrap();
        let s2 = Session::new();
        s2.clock.store(sut.now(), Ordering::SeqCst);
        s2.set_flag(F_NO_URING, true);
        s2.set_flag(F_FORCE_SYNC, true);
        let mut one = cfg;
        one.workers = 1;
        let reason = match Sut::open_existing(one, f.path(), s2) {
            Err(e) => Some(format!("the synced image does not reopen: {e:?}")),
            Ok(mut r) => {
                let mut why = None;
                for (k, v) in &expect_present {
                    match r.store().get(k) {
                        Ok(got) if &got == v => {}
                        other => {
                            why = Some(format!("key {} reads {:?} from the synced image, expected {}", show(k), other.map(|v| show(&v)), show(v)));
                            break;
                        }
                    }
                }
                for k in &expect_absent {
                    if r.store().get(k).is_ok() {
                        why = Some(format!("key {} is still present in the synced image", show(k)));
                    }
                }
                r.close();
                why
            }
        };
        // retirement of the superseded generation: nothing left queued, old extent reusable
        let d = sut.store().verif_dump();
        let reason = reason.or_else(|| {
            if !d.buffered.is_empty() {
                Some(format!("{} entries still buffered", d.buffered.len()))
            } else if !d.retirements.is_empty() {
                Some(format!("{} retirements still queued", d.retirements.len()))
            } else if matches!(kind, Kind::Overwrite | Kind::Delete | Kind::Sweep) && d.disk_usage != d.records.iter().map(|r| r.blocks).sum::<u64>() * BLOCK as u64 {
                Some("the superseded extent was not released".into())
            } else {
                None
            }
        });
        match reason {
            None => {
                durable = true;
                break;
            }
            Some(r) => last_reason = r,
        }
    }
    if !durable {
        res.problems.push(format!(
            "C19: {kind:?} on shard {shard} of {workers} ({nb:?} neighbours) is not durable after {max_rounds} coordinator rounds without flush(): {last_reason}"
        ));
    }
    drop(st);
    sut.close();
    res
}

pub fn check(tier: &str, budget_s: f64, report: &mut Report) {
    let thorough = tier == "thorough";
    let cpus = crate::util::cpus_available().len();
    let max_workers = (cpus / 2).clamp(1, 8);
    let mut cases = Vec::new();
    for workers in 1..=max_workers {
        for shard in 0..workers {
            for nb in [Neighbours::Idle, Neighbours::Busy] {
                if workers == 1 && nb == Neighbours::Busy {
                    continue;
                }
                for kind in [Kind::Insert, Kind::Overwrite, Kind::Delete, Kind::Sweep, Kind::InsertAfterFailedBatch, Kind::Trickle, Kind::OverwriteAfterIdle] {
                    cases.push((workers, shard, kind, nb));
                }
            }
            if thorough || shard == 0 || shard + 1 == workers {
                cases.push((workers, shard, Kind::Burst, Neighbours::Idle));
                cases.push((workers, shard, Kind::TickOnFullChannel, Neighbours::Idle));
                cases.push((workers, shard, Kind::BacklogAfterFailedBatch, Neighbours::Idle));
            }
        }
    }
    // batch sizes around the journal-image block boundaries (507 entries fit the first
    // block beside the 40-byte header, 512 in each further block) and the 1024 trigger
    for n in (505u16..=514).chain(1017..=1023) {
        cases.push((1, 0, Kind::BatchOf(n), Neighbours::Idle));
        if thorough {
            cases.push((2, 1, Kind::BatchOf(n), Neighbours::Idle));
        }
    }
    // bursts that fill the write buffer by size: just below, at and above 16 MiB in one drain
    for (n, mib) in [(5u8, 4u8), (9, 2), (4, 4), (3, 4)] {
        cases.push((1, 0, Kind::SizeBurst(n, mib), Neighbours::Idle));
    }
    if thorough {
        cases.push((2, 1, Kind::SizeBurst(5, 4), Neighbours::Idle));
        cases.push((1, 0, Kind::SizeBurst(34, 1), Neighbours::Idle));
    }
    let n = cases.len();
    let dl = crate::util::Deadline::new(budget_s);
    let done = AtomicU64::new(0);
    let rounds_hist: Mutex<[u64; 4]> = Mutex::new([0; 4]);
    let bad: Mutex<Vec<String>> = Mutex::new(Vec::new());
    let mach: Mutex<Vec<String>> = Mutex::new(Vec::new());
    let stop = AtomicBool::new(false);
    // cases with many workers need many CPUs visible while building: run a few at a time
    par_for_each(cases, 4, &stop, |_, (workers, shard, kind, nb)| {
        if dl.expired() {
            stop.store(true, Ordering::Relaxed);
            return;
        }
        let r = run_case(workers, shard, kind, nb);
        done.fetch_add(1, Ordering::Relaxed);
        rounds_hist.lock().unwrap()[(r.rounds as usize).min(3)] += 1;
        if let Some(m) = r.machinery {
            mach.lock().unwrap().push(format!("[{workers} workers, shard {shard}, {kind:?}] {m}"));
        }
        bad.lock().unwrap().extend(r.problems);
    });
    for m in mach.into_inner().unwrap().into_iter().take(5) {
        report.machinery(m);
    }
    let mut bad = bad.into_inner().unwrap();
    bad.sort();
    for b in bad.into_iter().take(8) {
        report.violation(format!("tick|{}", b.chars().take(160).collect::<String>()), b.clone(), json!({"engine":"c19","case":b}));
    }
    let d = done.load(Ordering::Relaxed);
    report.add("states", d);
    report.add("transitions", d);
    report.add("traces_validated_against_impl", d);
    report.set("tick_matrix", json!({"worker_counts": max_workers, "cases": n, "cases_run": d, "rounds_needed_histogram": *rounds_hist.lock().unwrap()}));
    report.set("exhaustive_matrix", d as usize == n);
    report.sample(json!({"case": "4 workers, shard 2, Overwrite, Busy neighbours", "oracle": "synced image recovers the replacement; nothing queued; old extent released; at most 2 coordinator rounds, no flush()"}));
    report.assumptions.push("the real-time constant (100 ms interval + I/O time) is not measured here: rounds of the coordinator are counted instead".into());
}

pub fn debug_case(workers: usize, shard: usize, kind: &str) -> i32 {
    let kind = match kind {
        "burst" => Kind::Burst,
        "fullchannel" => Kind::TickOnFullChannel,
        "trickle" => Kind::Trickle,
        "idle" => Kind::OverwriteAfterIdle,
        "backlog" => Kind::BacklogAfterFailedBatch,
        "sizeburst" => Kind::SizeBurst(5, 4),
        k if k.starts_with("batch") => Kind::BatchOf(k[5..].parse().unwrap_or(509)),
        "insert" => Kind::Insert,
        "overwrite" => Kind::Overwrite,
        "delete" => Kind::Delete,
        "sweep" => Kind::Sweep,
        _ => Kind::InsertAfterFailedBatch,
    };
    for nb in [Neighbours::Idle, Neighbours::Busy] {
        let r = run_case(workers, shard, kind, nb);
        println!("{workers} workers shard {shard} {kind:?} {nb:?}: rounds {} problems {:?} machinery {:?}", r.rounds, r.problems, r.machinery);
    }
    0
}

/// The failed-backlog case seen through C09: accepted writes behind a failed batch must
/// not vanish; once the device works again everything accepted is durable.
pub fn failed_backlog_for_c09(report: &mut Report) {
    failed_backlog_for(report, "C09")
}

/// The same two cases for another property's check (`tag`: C02 - what was accepted is acknowledged by the
/// coordinator rounds that report nothing left to do - or C09).
pub fn failed_backlog_for(report: &mut Report, tag: &str) {
    let mut cases = 0u64;
    for (workers, shard) in [(1usize, 0usize), (2, 1)] {
        let r = run_case(workers, shard, Kind::BacklogAfterFailedBatch, Neighbours::Idle);
        cases += 1;
        if let Some(m) = r.machinery {
            report.machinery(format!("[failed backlog, {workers} workers] {m}"));
        }
        for p in r.problems.into_iter().take(2) {
            let msg = p.replacen("C19:", &format!("{tag}: after a record batch failed three times and the device recovered,"), 1);
            report.violation(format!("fault|failed-backlog|{workers} workers|{}", msg.chars().take(120).collect::<String>()), msg, json!({"engine":"c19-case","workers":workers,"shard":shard,"kind":"backlog"}));
        }
    }
    report.add("evaluations", cases);
    report.set("failed_backlog_cases", cases);
}
