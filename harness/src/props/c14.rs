//! C14 (sequential part) — complete small scope: every subset of a 6-key universe
//! (shared prefixes, embedded NUL, 0xff keys) × every pair of 10 bounds × limits ×
//! storage tiers, compared with the exact model.

use crate::sut::{Cfg, Sut, SEC, T0};
use crate::util::{par_for_each, show, Report};
use serde_json::json;
use std::sync::atomic::{AtomicBool, AtomicU64, Ordering};
use std::sync::Mutex;

fn universe() -> Vec<Vec<u8>> {
    vec![b"a".to_vec(), b"a\0".to_vec(), b"ab".to_vec(), b"b".to_vec(), vec![0xff], vec![0xff, 0xff]]
}

fn bounds() -> Vec<Vec<u8>> {
    vec![
        b"".to_vec(),
        b"a".to_vec(),
        b"a\0".to_vec(),
        b"aa".to_vec(),
        b"ab".to_vec(),
        b"b".to_vec(),
        b"c".to_vec(),
        vec![0xff],
        vec![0xff, 0xff],
        vec![0xff, 0xff, 0xff],
    ]
}

#[derive(Clone, Copy, Debug, PartialEq)]
enum Variant {
    Memory,
    /// every third key of the subset is written already expired
    MemoryExpired,
    DiskCold,
    DiskWarm,
    DiskExpired,
    DiskV1,
}

fn value_of(key: &[u8]) -> Vec<u8> {
    let mut v = b"v:".to_vec();
    v.extend_from_slice(key);
    v
}

pub fn run(tier: &str, report: &mut Report) {
    let u = universe();
    let b = bounds();
    let limits: Vec<usize> = if tier == "thorough" { vec![0, 1, 2, 3, 10, usize::MAX] } else { vec![0, 1, 2, 10] };
    let variants = [Variant::Memory, Variant::MemoryExpired, Variant::DiskCold, Variant::DiskWarm, Variant::DiskExpired, Variant::DiskV1];
    let mut work = Vec::new();
    for mask in 0u32..64 {
        for v in variants {
            work.push((mask, v));
        }
    }
    let evals = AtomicU64::new(0);
    let nonempty = AtomicU64::new(0);
    let bad: Mutex<Vec<(String, String)>> = Mutex::new(Vec::new());
    let stop = AtomicBool::new(false);
    par_for_each(work, crate::util::worker_threads(), &stop, |_, (mask, variant)| {
        let mut cfg = match variant {
            Variant::Memory | Variant::MemoryExpired => Cfg::memory(),
            _ => Cfg::persistent(24),
        };
        cfg.ttl = matches!(variant, Variant::MemoryExpired | Variant::DiskExpired);
        if variant == Variant::DiskV1 {
            cfg.format = 1;
        }
        let mut sut = match Sut::create(cfg, "c14") {
            Ok(s) => s,
            Err(e) => {
                bad.lock().unwrap().push(("setup".into(), format!("MACHINERY {e}")));
                return;
            }
        };
        let st = sut.store().clone();
        let mut live: Vec<Vec<u8>> = Vec::new();
        for (i, k) in u.iter().enumerate() {
            if mask >> i & 1 == 0 {
                continue;
            }
            let expired = cfg.ttl && i % 3 == 0;
            let r = if expired {
                // born expired: explicit old timestamp + 1 s TTL
                st.insert_with_ttl_and_timestamp(k, &value_of(k), 1, Some(5 + i as u64)).map(|_| ())
            } else if cfg.ttl && i % 3 == 1 {
                st.insert_with_ttl(k, &value_of(k), 1000).map(|_| ())
            } else {
                st.insert(k, &value_of(k)).map(|_| ())
            };
            if let Err(e) = r {
                bad.lock().unwrap().push(("setup".into(), format!("MACHINERY insert failed: {e:?}")));
                return;
            }
            if !expired {
                live.push(k.clone());
            }
        }
        if cfg.persistent {
            if let Err(e) = st.flush() {
                bad.lock().unwrap().push(("setup".into(), format!("MACHINERY flush failed: {e:?}")));
                return;
            }
            if variant == Variant::DiskWarm {
                for (i, k) in live.iter().enumerate() {
                    if i % 2 == 0 {
                        let _ = st.get(k);
                    }
                }
            }
        }
        live.sort();
        let _ = (SEC, T0);
        for lo in &b {
            for hi in &b {
                for &limit in &limits {
                    let want: Vec<(Vec<u8>, Vec<u8>)> = if limit == 0 || lo > hi {
                        Vec::new()
                    } else {
                        live.iter().filter(|k| *k >= lo && *k <= hi).take(limit).map(|k| (k.clone(), value_of(k))).collect()
                    };
                    evals.fetch_add(1, Ordering::Relaxed);
                    if !want.is_empty() {
                        nonempty.fetch_add(1, Ordering::Relaxed);
                    }
                    let got = std::panic::catch_unwind(std::panic::AssertUnwindSafe(|| st.range_query(lo, hi, limit)));
                    let desc = format!(
                        "{variant:?} live keys {:?} (+ expired ones of subset {mask:06b}) range({}..={}, {limit})",
                        live.iter().map(|k| show(k)).collect::<Vec<_>>(),
                        show(lo),
                        show(hi)
                    );
                    match got {
                        Ok(Ok(g)) if g == want => {}
                        Ok(Ok(g)) => {
                            let f = |x: &Vec<(Vec<u8>, Vec<u8>)>| x.iter().map(|(k, v)| format!("{}={}", show(k), show(v))).collect::<Vec<_>>();
                            let mut bl = bad.lock().unwrap();
                            if bl.len() < 32 {
                                bl.push((desc, format!("C14: returned {:?}, expected exactly {:?}", f(&g), f(&want))));
                            }
                        }
                        Ok(Err(e)) => {
                            let mut bl = bad.lock().unwrap();
                            if bl.len() < 32 {
                                bl.push((desc, format!("C14: failed with {e:?}")));
                            }
                        }
                        Err(_) => {
                            let mut bl = bad.lock().unwrap();
                            if bl.len() < 32 {
                                bl.push((desc, "C14: range_query panicked".into()));
                            }
                        }
                    }
                }
            }
        }
        drop(st);
        sut.close();
    });
    let n = evals.load(Ordering::Relaxed);
    report.add("states", 64 * variants.len() as u64);
    report.add("transitions", n);
    report.add("traces_validated_against_impl", n);
    report.set("range_scope", json!({"universe": u.iter().map(|k| show(k)).collect::<Vec<_>>(), "subsets": 64, "bounds": b.len(), "limits": limits.len(),
        "variants": variants.iter().map(|v| format!("{v:?}")).collect::<Vec<_>>(), "queries": n, "queries_with_nonempty_answer": nonempty.load(Ordering::Relaxed)}));
    report.sample(json!({"subset": "a, ab, \\xff", "variant": "DiskWarm", "query": "range(a\\0..=\\xff, 2)", "expected": ["ab", "\\xff"]}));
    let mut bad = bad.into_inner().unwrap();
    bad.sort();
    for (desc, msg) in bad.into_iter().take(8) {
        if let Some(m) = msg.strip_prefix("MACHINERY ") {
            report.machinery(m.to_string());
        } else {
            report.violation(format!("range|{}|{}", desc.chars().take(120).collect::<String>(), msg.chars().take(60).collect::<String>()), format!("{desc}\n{msg}"), json!({"engine":"c14","case":desc}));
        }
    }
}

/// Sampling supplement (NOT part of the exhaustive claim, reported separately): threads
/// hammer delete / re-create on a few keys without the controller; at every quiescent
/// point the ordered index and the hash index must hold the same keys. A race window
/// that lies between two adjacent hook points is invisible to the controlled scheduler
/// but can be hit here.
pub fn stress_supplement(report: &mut Report, seconds: f64) {
    // free-running threads need real parallelism: no CPU pinning here
    crate::util::set_home_cpu(None);
    let dl = crate::util::Deadline::new(seconds);
    let mut rounds = 0u64;
    let mut ops = 0u64;
    while !dl.expired() && rounds < 200 {
        let Ok(mut sut) = Sut::create(Cfg::memory(), "c14stress") else { return };
        let st = sut.store().clone();
        let keys: Vec<Vec<u8>> = (0..4).map(|i| format!("k{i}").into_bytes()).collect();
        let panicked: Mutex<Option<String>> = Mutex::new(None);
        std::thread::scope(|sc| {
            for t in 0..3 {
                let st = st.clone();
                let keys = keys.clone();
                let panicked = &panicked;
                sc.spawn(move || {
                    let r = std::panic::catch_unwind(std::panic::AssertUnwindSafe(|| {
                        for i in 0..4000u32 {
                            let k = &keys[(i as usize + t) % keys.len()];
                            match (t + i as usize) % 3 {
                                0 => {
                                    let _ = st.delete(k);
                                }
                                1 => {
                                    let _ = st.insert_if_absent(k, b"v");
                                }
                                _ => {
                                    // distinct values: at quiescence the scan must show the generation
                                    // the point read shows (racing overwrites of one key)
                                    let _ = st.insert(k, format!("w{t}-{i}").as_bytes());
                                    if i % 2 == 0 {
                                        let _ = st.insert(k, format!("x{t}-{i}").as_bytes());
                                    }
                                }
                            }
                        }
                    }));
                    if let Err(p) = r {
                        *panicked.lock().unwrap() = Some(crate::sut::panic_text(p));
                    }
                });
            }
        });
        if let Some(msg) = panicked.into_inner().unwrap() {
            report.violation(
                "range|stress-supplement|panic".to_string(),
                format!("C14: a call panicked under concurrent delete / insert_if_absent / insert on the same keys: {msg} (found by the free-running sampling supplement, round {})", rounds + 1),
                json!({"engine":"c14-stress","round":rounds + 1}),
            );
            std::mem::forget(sut);
            break;
        }
        ops += 12_000;
        rounds += 1;
        let d = st.verif_dump();
        let hash: Vec<&Vec<u8>> = d.records.iter().map(|r| &r.key).collect();
        let tree: Vec<&Vec<u8>> = d.tree.iter().map(|t| &t.0).collect();
        if hash != tree {
            report.violation(
                "range|stress-supplement|index disagreement".to_string(),
                format!(
                    "C14: after concurrent delete / insert_if_absent / insert on the same keys the hash index holds {:?} but the ordered index holds {:?} (found by the free-running sampling supplement, round {rounds})",
                    hash.iter().map(|k| show(k)).collect::<Vec<_>>(),
                    tree.iter().map(|k| show(k)).collect::<Vec<_>>()
                ),
                json!({"engine":"c14-stress","round":rounds}),
            );
            break;
        }
        // quiescent: sequential semantics apply - the scan returns every key's current value
        let scan = st.range_query(b"", &[0xff; 8], 1000).unwrap_or_default();
        let stale = scan.iter().find(|(k, v)| st.get(k).ok().as_ref() != Some(v));
        if let Some((k, v)) = stale {
            report.violation(
                "range|stress-supplement|stale scan value".to_string(),
                format!(
                    "C14: at quiescence after racing overwrites range_query returns {}={} but get returns {:?} (found by the free-running sampling supplement, round {rounds})",
                    show(k),
                    show(v),
                    st.get(k).ok().map(|v| show(&v))
                ),
                json!({"engine":"c14-stress","round":rounds}),
            );
            break;
        }
        drop(st);
        sut.close();
    }
    // second phase: four writers released together overwrite one key, round after round; after
    // each round (quiescent) the scan must show the value the point read shows
    let mut race_rounds = 0u64;
    if report.violations.is_empty() {
        race_rounds = overwrite_race(report, (seconds * 0.5).max(1.0));
    }
    report.set("sampling_supplement", json!({"rounds": rounds, "operations": ops, "overwrite_race_rounds": race_rounds, "note": "free-running threads, not exhaustive, not counted in states/transitions"}));
}

fn overwrite_race(report: &mut Report, seconds: f64) -> u64 {
    use std::sync::atomic::{AtomicBool, AtomicU64, Ordering};
    const WRITERS: usize = 4;
    let Ok(mut sut) = Sut::create(Cfg::memory(), "c14race") else { return 0 };
    let st = sut.store().clone();
    let _ = st.insert(b"race", b"initial");
    let _ = st.insert(b"zz-after", b"neighbour");
    let go = AtomicU64::new(0);
    let done = AtomicU64::new(0);
    let stop = AtomicBool::new(false);
    let dl = crate::util::Deadline::new(seconds);
    let mut rounds = 0u64;
    let mut bad: Option<String> = None;
    std::thread::scope(|sc| {
        for t in 0..WRITERS {
            let (st, go, done, stop) = (st.clone(), &go, &done, &stop);
            sc.spawn(move || {
                let mut round = 0u64;
                loop {
                    round += 1;
                    while go.load(Ordering::Acquire) < round {
                        if stop.load(Ordering::Relaxed) {
                            return;
                        }
                        std::hint::spin_loop();
                    }
                    let _ = st.insert(b"race", format!("r{round}-w{t}").as_bytes());
                    done.fetch_add(1, Ordering::AcqRel);
                }
            });
        }
        while !dl.expired() {
            rounds += 1;
            go.store(rounds, Ordering::Release);
            while done.load(Ordering::Acquire) < rounds * WRITERS as u64 {
                std::hint::spin_loop();
            }
            // every writer has returned: quiescent
            let point = st.get(b"race").ok();
            let scan = st.range_query(b"race", b"race", 4).unwrap_or_default();
            let scanned = scan.first().map(|(_, v)| v.clone());
            if point != scanned {
                bad = Some(format!(
                    "C14: at quiescence after {WRITERS} racing overwrites of one key (round {rounds}) range_query returns {:?} but get returns {:?}",
                    scanned.map(|v| show(&v)),
                    point.map(|v| show(&v))
                ));
                break;
            }
        }
        stop.store(true, Ordering::Relaxed);
    });
    if let Some(msg) = bad {
        report.violation("range|stress-supplement|stale scan value after racing overwrites".to_string(), format!("{msg} (found by the free-running sampling supplement)"), json!({"engine":"c14-stress","round":rounds}));
    }
    drop(st);
    sut.close();
    rounds
}
