//! Concurrent program families for C11 (sweeper), C13 (memory limit), C14 (scans),
//! C16 (cache-warm readers).

use super::schedprops::Program;
use crate::suites::big_value;
use crate::sut::{Cfg, Op, Tables};
use std::sync::Arc;

fn ins(k: u8, v: u8) -> Op {
    Op::Insert { k, v, ts: 0, ttl: 0, bytes: false }
}

// ------------------------------------------------------------------ C14: scans vs neighbours

pub fn scan_tables() -> Tables {
    Tables {
        keys: vec![b"a".to_vec(), b"b".to_vec(), b"c".to_vec()],
        values: vec![b"va".to_vec(), b"vb".to_vec(), b"vc".to_vec(), b"va2".to_vec(), big_value(5000, 0x31)],
        bounds: vec![b"".to_vec(), b"b".to_vec(), vec![0xff; 4]],
        patches: vec![],
    }
}

pub fn scan_programs(thorough: bool) -> Vec<Program> {
    let t = Arc::new(scan_tables());
    let mut v = Vec::new();
    let mut disk = Cfg::persistent(12);
    disk.cache = true;
    for cfg in [Cfg::memory(), disk] {
        let tier = if cfg.persistent { "disk" } else { "mem" };
        let mut setup = vec![ins(0, 0), ins(2, 2)];
        if cfg.persistent {
            setup.push(Op::Flush);
        }
        let scans = [Op::Range { lo: 0, hi: 2, limit: 10 }, Op::Range { lo: 1, hi: 2, limit: 10 }, Op::Range { lo: 0, hi: 2, limit: 2 }];
        let mut writers: Vec<Vec<Op>> = vec![
            vec![ins(1, 1)],
            vec![Op::Delete { k: 0, ts: 0 }],
            vec![ins(0, 3)],
            vec![Op::Delete { k: 0, ts: 0 }, ins(0, 3)],
            vec![ins(1, 1), Op::Delete { k: 2, ts: 0 }],
            vec![Op::Delete { k: 2, ts: 0 }, Op::Ifa { k: 2, v: 1 }],
        ];
        if cfg.persistent {
            writers.push(vec![ins(0, 4), Op::Flush]);
            writers.push(vec![Op::Delete { k: 0, ts: 0 }, Op::Flush, ins(1, 4), Op::Flush]);
        }
        for (si, s) in scans.iter().enumerate() {
            for w in &writers {
                if !thorough && cfg.persistent && si == 1 {
                    continue;
                }
                v.push(Program {
                    name: format!("scan-{tier}:{}|{}", t.describe(s), w.iter().map(|o| t.describe(o)).collect::<Vec<_>>().join(";")),
                    cfg,
                    tables: t.clone(),
                    setup: setup.clone(),
                    threads: vec![vec![*s], w.clone()],
                    observe: vec![0, 1, 2],
                });
            }
        }
        // the inclusive upper bound while the greatest in-window key is deleted / re-created
        // during the scan and a key above the bound exists
        {
            let mut setup3 = vec![ins(0, 0), ins(1, 1), ins(2, 2)];
            if cfg.persistent {
                setup3.push(Op::Flush);
            }
            for w in [vec![Op::Delete { k: 1, ts: 0 }], vec![Op::Delete { k: 1, ts: 0 }, ins(1, 3)], vec![Op::Delete { k: 0, ts: 0 }, Op::Delete { k: 1, ts: 0 }]] {
                v.push(Program {
                    name: format!("scan-{tier}:upper-bound:range(..=b)|{}", w.iter().map(|o| t.describe(o)).collect::<Vec<_>>().join(";")),
                    cfg,
                    tables: t.clone(),
                    setup: setup3.clone(),
                    threads: vec![vec![Op::Range { lo: 0, hi: 1, limit: 10 }], w],
                    observe: vec![0, 1, 2],
                });
            }
        }
        // index agreement after racing delete / re-create on one key
        for (a, b) in [
            (vec![Op::Delete { k: 0, ts: 0 }], vec![Op::Ifa { k: 0, v: 1 }]),
            (vec![Op::Delete { k: 0, ts: 0 }], vec![ins(0, 3)]),
            (vec![Op::Delete { k: 0, ts: 0 }], vec![Op::Incr { k: 0, delta: 1, ts: 0, ttl: 0 }]),
            (vec![Op::Delete { k: 0, ts: 0 }, Op::Ifa { k: 0, v: 1 }], vec![Op::Ifa { k: 0, v: 3 }]),
            // explicit timestamps: the writer that legitimately wins was overtaken by a delete + re-creation of the key
            (
                vec![Op::Insert { k: 0, v: 3, ts: crate::suites::FUT + 3, ttl: 0, bytes: false }],
                vec![Op::Delete { k: 0, ts: crate::suites::FUT + 1 }, Op::Insert { k: 0, v: 1, ts: crate::suites::FUT + 2, ttl: 0, bytes: false }],
            ),
            (
                vec![Op::Insert { k: 0, v: 3, ts: crate::suites::FUT + 3, ttl: 0, bytes: true }],
                vec![Op::Delete { k: 0, ts: crate::suites::FUT + 1 }, Op::Insert { k: 0, v: 1, ts: crate::suites::FUT + 2, ttl: 0, bytes: false }],
            ),
        ] {
            v.push(Program {
                name: format!("index-{tier}:{}|{}", a.iter().map(|o| t.describe(o)).collect::<Vec<_>>().join(";"), b.iter().map(|o| t.describe(o)).collect::<Vec<_>>().join(";")),
                cfg,
                tables: t.clone(),
                setup: setup.clone(),
                threads: vec![a, b, vec![Op::Range { lo: 0, hi: 2, limit: 10 }]],
                observe: vec![0, 1, 2],
            });
        }
    }
    v
}

// ------------------------------------------------------------------ C13: writers against a memory limit

pub fn limit_tables() -> Tables {
    Tables {
        keys: vec![b"a".to_vec(), b"b".to_vec(), b"c".to_vec()],
        values: vec![b"x".to_vec(), vec![0x41; 300], vec![0x42; 600], 7i64.to_le_bytes().to_vec()],
        bounds: vec![b"".to_vec(), vec![0xff; 4]],
        patches: vec![],
    }
}

pub fn limit_programs(_thorough: bool) -> Vec<Program> {
    let t = Arc::new(limit_tables());
    let overhead = std::mem::size_of::<feoxdb::core::record::Record>();
    let mut v = Vec::new();
    // room for: two small records, or one small + one 300-byte record; never a 600-byte one next to anything
    let mut cfg = Cfg::memory();
    cfg.max_memory = Some(2 * (overhead + 1) + 300 + 8);
    let bodies: Vec<Vec<Op>> = vec![
        vec![ins(0, 0)],
        vec![ins(1, 0)],
        vec![ins(2, 0)],
        vec![ins(0, 1)],
        vec![ins(1, 1)],
        vec![ins(0, 2)],
        vec![Op::Ifa { k: 1, v: 1 }],
        vec![Op::Incr { k: 2, delta: 1, ts: 0, ttl: 0 }],
        vec![Op::Cas { k: 0, expect: 0, new: 1, ts: 0, ttl: 0 }],
        vec![Op::Delete { k: 0, ts: 0 }],
        vec![Op::Delete { k: 0, ts: 0 }, ins(1, 1)],
        vec![ins(0, 1), ins(0, 0)],
    ];
    for (iname, setup) in [("empty", vec![]), ("a=x", vec![ins(0, 0)]), ("a=300", vec![ins(0, 1)])] {
        for i in 0..bodies.len() {
            for j in i..bodies.len() {
                if bodies[i].len() + bodies[j].len() > 3 {
                    continue;
                }
                v.push(Program {
                    name: format!("limit2:{iname}:{}|{}", d(&t, &bodies[i]), d(&t, &bodies[j])),
                    cfg,
                    tables: t.clone(),
                    setup: setup.clone(),
                    threads: vec![bodies[i].clone(), bodies[j].clone()],
                    observe: vec![0, 1, 2],
                });
            }
        }
        for (i, j, k) in [(0, 1, 2), (0, 4, 7), (3, 4, 2), (3, 6, 9), (1, 5, 9), (8, 3, 1)] {
            v.push(Program {
                name: format!("limit3:{iname}:{}|{}|{}", d(&t, &bodies[i]), d(&t, &bodies[j]), d(&t, &bodies[k])),
                cfg,
                tables: t.clone(),
                setup: setup.clone(),
                threads: vec![bodies[i].clone(), bodies[j].clone(), bodies[k].clone()],
                observe: vec![0, 1, 2],
            });
        }
    }
    v
}

/// C13 with scheduling points after every update of the usage counter (hook `mem_points`): each thread
/// works on a key of its own (pairwise distinct hash buckets), so that a thread can be parked between
/// two counter updates of ONE call while the others reserve and release. The limit admits the resident
/// record of `a` plus one more small record.
pub fn limit_point_programs(thorough: bool) -> Vec<Program> {
    let t = Arc::new(limit_tables());
    let overhead = std::mem::size_of::<feoxdb::core::record::Record>();
    let mut v = Vec::new();
    let mut cfg = Cfg::memory();
    cfg.mem_points = true;
    // a = 300 bytes resident; room for that and ONE more small record (or an 8-byte counter): never for a
    // 600-byte `a`, never for a second 300-byte record, never for `b` and `c` together
    assert!(overhead + 2 + 8 < 300);
    cfg.max_memory = Some(overhead + 1 + 300 + (overhead + 1 + 1) + 8);
    let on_a: Vec<Vec<Op>> = vec![
        vec![Op::Cas { k: 0, expect: 1, new: 2, ts: 0, ttl: 0 }], // 300 -> 600 bytes: refused
        vec![ins(0, 2)],                                           // the same growth through insert: refused
        vec![Op::Cas { k: 0, expect: 1, new: 0, ts: 0, ttl: 0 }], // shrinks: admitted
        vec![ins(0, 0)],                                           // shrinks: admitted
        vec![Op::Delete { k: 0, ts: 0 }],
        vec![Op::Cas { k: 0, expect: 1, new: 2, ts: 0, ttl: 0 }, Op::Cas { k: 0, expect: 1, new: 0, ts: 0, ttl: 0 }],
    ];
    let on_b: Vec<Vec<Op>> = vec![vec![ins(1, 0)], vec![ins(1, 1)], vec![Op::Ifa { k: 1, v: 0 }], vec![ins(1, 0), Op::Delete { k: 1, ts: 0 }]];
    let on_c: Vec<Vec<Op>> = vec![vec![ins(2, 0)], vec![Op::Incr { k: 2, delta: 1, ts: 0, ttl: 0 }]];
    let setup = vec![ins(0, 1)];
    for a in &on_a {
        for b in &on_b {
            v.push(Program {
                name: format!("limitpt2:{}|{}", d(&t, a), d(&t, b)),
                cfg,
                tables: t.clone(),
                setup: setup.clone(),
                threads: vec![a.clone(), b.clone()],
                observe: vec![0, 1, 2],
            });
            for c in &on_c {
                if !thorough && (a.len() + b.len() > 2) {
                    continue;
                }
                v.push(Program {
                    name: format!("limitpt3:{}|{}|{}", d(&t, a), d(&t, b), d(&t, c)),
                    cfg,
                    tables: t.clone(),
                    setup: setup.clone(),
                    threads: vec![a.clone(), b.clone(), c.clone()],
                    observe: vec![0, 1, 2],
                });
            }
        }
    }
    v
}

fn d(t: &Tables, ops: &[Op]) -> String {
    ops.iter().map(|o| t.describe(o)).collect::<Vec<_>>().join(";")
}

// ------------------------------------------------------------------ C11: sweeper vs renewers

pub fn sweep_tables() -> Tables {
    Tables {
        keys: vec![b"a".to_vec(), b"b".to_vec()],
        values: vec![b"x".to_vec(), b"y".to_vec(), 7i64.to_le_bytes().to_vec(), big_value(700, 0x51)],
        bounds: vec![b"".to_vec(), vec![0xff; 4]],
        patches: vec![],
    }
}

pub fn sweep_programs(_thorough: bool) -> Vec<Program> {
    let t = Arc::new(sweep_tables());
    let mut v = Vec::new();
    let mut mem = Cfg::memory();
    mem.ttl = true;
    let mut disk = Cfg::persistent(8);
    disk.ttl = true;
    disk.cache = true;
    for cfg in [mem, disk] {
        let tier = if cfg.persistent { "disk" } else { "mem" };
        let ttl1 = |v: u8| Op::Insert { k: 0, v, ts: 0, ttl: 1, bytes: false };
        // `a` is written with a 1 s TTL, then the clock moves past / onto its expiry
        for (iname, adv) in [("expired", 3u8), ("at-expiry", 2u8), ("alive", 1u8)] {
            let mut setup = vec![ttl1(0)];
            if cfg.persistent {
                setup.push(Op::Flush);
            }
            setup.push(Op::Advance(adv));
            let renewers: Vec<Vec<Op>> = vec![
                vec![Op::Insert { k: 0, v: 1, ts: 0, ttl: 1000, bytes: false }],
                vec![ins(0, 1)],
                vec![Op::UpdateTtl { k: 0, secs: 1000 }],
                vec![Op::Persist(0)],
                vec![Op::Incr { k: 0, delta: 1, ts: 0, ttl: 0 }],
                vec![Op::Ifa { k: 0, v: 1 }],
                vec![Op::Delete { k: 0, ts: 0 }, ins(0, 1)],
                vec![Op::Get(0)],
                vec![Op::Cas { k: 0, expect: 0, new: 1, ts: 0, ttl: 1000 }],
            ];
            for r in renewers {
                let mut threads = vec![vec![Op::Sweep], r.clone()];
                if cfg.persistent {
                    threads[1].push(Op::Flush);
                }
                v.push(Program {
                    name: format!("sweep-{tier}:{iname}:sweep|{}", d(&t, &r)),
                    cfg,
                    tables: t.clone(),
                    setup: setup.clone(),
                    threads,
                    observe: vec![0],
                });
            }
            // lazy expiry (a modification that finds the key expired retires it itself) racing a re-creation
            for (lname, a, b) in [
                ("incr|insert", vec![Op::Incr { k: 0, delta: 1, ts: 0, ttl: 0 }], vec![ins(0, 1)]),
                ("incr|insert_ttl", vec![Op::Incr { k: 0, delta: 1, ts: 0, ttl: 0 }], vec![Op::Insert { k: 0, v: 1, ts: 0, ttl: 1000, bytes: false }]),
                ("incr|incr", vec![Op::Incr { k: 0, delta: 1, ts: 0, ttl: 0 }], vec![Op::Incr { k: 0, delta: 2, ts: 0, ttl: 0 }]),
                ("incr|sweep|insert", vec![Op::Incr { k: 0, delta: 1, ts: 0, ttl: 0 }], vec![Op::Sweep, ins(0, 1)]),
            ] {
                let mut threads = vec![a, b];
                if cfg.persistent {
                    threads[1].push(Op::Flush);
                }
                v.push(Program { name: format!("sweep-{tier}:{iname}:lazy:{lname}"), cfg, tables: t.clone(), setup: setup.clone(), threads, observe: vec![0] });
            }
            // two sweepers and a renewer
            v.push(Program {
                name: format!("sweep-{tier}:{iname}:sweep|sweep|renew"),
                cfg,
                tables: t.clone(),
                setup: setup.clone(),
                threads: vec![vec![Op::Sweep], vec![Op::Sweep], vec![Op::Insert { k: 0, v: 1, ts: 0, ttl: 1000, bytes: false }]],
                observe: vec![0],
            });
        }
    }
    v
}

// ------------------------------------------------------------------ C16: readers/writers on an offloaded, cache-warm key

pub fn warm_programs(thorough: bool) -> Vec<Program> {
    let mut v = Vec::new();
    for mut p in super::c08::programs(thorough) {
        if !p.cfg.cache {
            continue;
        }
        // warm the cache for the key being read
        p.setup.push(Op::Get(super::c08::K));
        p.name = format!("warm-{}", p.name);
        v.push(p);
    }
    v
}
