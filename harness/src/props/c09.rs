//! C09 — FAULT: deviation-bounded enumeration of I/O answers. A decision point is the
//! k-th device call (write or fsync) of a workload; the default answer is "proceed";
//! deviations are fail-before, fail-after, short write, and "everything fails from
//! call k on". After every run the complete device log goes through the crash engine.

use crate::crash::{self, CrashOpts, Obligations};
use crate::model::Model;
use crate::session::{CallKind, IoEv};
use crate::suites::{big_value, FUT};
use crate::sut::{Cfg, Op, Out, Sut, Tables, T0};
use crate::util::{hash64, par_for_each, show, Deadline, Report, TempFile};
use feoxdb::verif::IoAnswer;
use serde_json::json;
use std::collections::HashSet;
use std::sync::atomic::{AtomicBool, AtomicU64, Ordering};
use std::sync::Mutex;

#[derive(Clone, Debug, PartialEq, Eq, Hash, PartialOrd, Ord)]
pub struct Plan {
    pub answers: Vec<(usize, u8)>, // (call index, 1 = fail before, 2 = fail after, 3 = short)
    pub fail_from: Option<usize>,
    /// which writes `fail_from` applies to: 0 every call, 1 record data, 2 retirement
    /// markers, 3 the allocation journal (fsyncs keep working for 1..3)
    pub from_kind: u8,
    /// answers on the io_uring path, see `FaultState::uring_plan`
    pub uring: Vec<(u8, usize)>,
}

impl Plan {
    pub fn none() -> Plan {
        Plan { answers: vec![], fail_from: None, from_kind: 0, uring: vec![] }
    }
    fn single(i: usize, c: u8) -> Plan {
        Plan { answers: vec![(i, c)], ..Plan::none() }
    }
    fn from(i: usize, kind: u8) -> Plan {
        Plan { fail_from: Some(i), from_kind: kind, ..Plan::none() }
    }
}

fn answer(code: u8) -> IoAnswer {
    match code {
        1 => IoAnswer::FailBefore,
        2 => IoAnswer::FailAfter,
        _ => IoAnswer::Short,
    }
}

fn tables() -> Tables {
    Tables {
        keys: vec![b"a".to_vec(), b"b".to_vec(), b"c".to_vec(), b"d".to_vec()],
        values: vec![b"x".to_vec(), b"y".to_vec(), big_value(5000, 0x61), 7i64.to_le_bytes().to_vec(), big_value(9000, 0x62)],
        bounds: vec![b"".to_vec(), vec![0xff; 4]],
        patches: vec![],
    }
}

fn ins(k: u8, v: u8) -> Op {
    Op::Insert { k, v, ts: 0, ttl: 0, bytes: false }
}

pub fn workloads(thorough: bool) -> Vec<(String, Cfg, Vec<Op>)> {
    let mut disk = Cfg::persistent(12);
    disk.cache = true;
    let mut ttl = disk;
    ttl.ttl = true;
    let mut v = vec![
        ("grow-delete".to_string(), disk, vec![ins(0, 0), Op::Flush, ins(0, 2), ins(1, 0), Op::Delete { k: 0, ts: 0 }, Op::Flush]),
        ("two-batches".to_string(), disk, vec![ins(0, 0), ins(1, 2), Op::Flush, Op::Delete { k: 1, ts: 0 }, ins(0, 1), Op::Flush]),
        ("overwrite-flush-flush".to_string(), disk, vec![ins(0, 2), Op::Flush, ins(0, 0), Op::Flush, Op::Flush]),
        ("ttl-rewrite".to_string(), ttl, vec![Op::Insert { k: 0, v: 0, ts: 0, ttl: 1000, bytes: false }, Op::Flush, Op::UpdateTtl { k: 0, secs: 5000 }, Op::Flush]),
        // one batch whose first record is larger than the second (adjacent extents of unequal size)
        ("big-then-small".to_string(), disk, vec![ins(0, 2), ins(1, 0), Op::Flush, ins(1, 1), Op::Flush]),
        ("small-then-big".to_string(), disk, vec![ins(1, 0), ins(0, 2), Op::Flush, ins(1, 1), Op::Flush]),
        // a failed batch of unequal extents refilling a hole right in front of another key's durable record
        (
            "hole-refill".to_string(),
            disk,
            vec![ins(0, 4), Op::Flush, ins(1, 0), Op::Flush, Op::Delete { k: 0, ts: 0 }, Op::Flush, ins(0, 2), ins(2, 0), Op::Flush, Op::Flush, ins(3, 1), Op::Flush],
        ),
        (
            "hole-refill-rev".to_string(),
            disk,
            vec![ins(0, 4), Op::Flush, ins(1, 0), Op::Flush, Op::Delete { k: 0, ts: 0 }, Op::Flush, ins(2, 0), ins(0, 2), Op::Flush, Op::Flush, ins(3, 1), Op::Flush],
        ),
        // two workers: while the record writes of key a's shard keep failing, the other
        // worker's retirement pass runs over the shared queue
        (
            "two-workers-chain".to_string(),
            {
                let mut two = disk;
                two.workers = 2;
                two
            },
            vec![ins(0, 0), Op::Flush, ins(0, 1), ins(0, 0), Op::Tick, ins(1, 0), Op::Tick, Op::Flush],
        ),
        ("batch-of-three".to_string(), disk, vec![ins(0, 0), ins(1, 1), Op::Flush, ins(0, 1), ins(1, 0), Op::Incr { k: 1, delta: 0, ts: FUT, ttl: 0 }, Op::Flush]),
    ];
    if thorough {
        v.push(("tick-then-flush".to_string(), disk, vec![ins(0, 0), Op::Tick, ins(0, 2), Op::Tick, Op::Delete { k: 0, ts: 0 }, Op::Flush]));
        let mut v1 = disk;
        v1.format = 1;
        v.push(("v1-grow-delete".to_string(), v1, vec![ins(0, 0), Op::Flush, ins(0, 2), ins(1, 0), Op::Delete { k: 0, ts: 0 }, Op::Flush]));
    }
    v
}

/// Workloads on the io_uring batch path (record data goes through the ring; journal,
/// marker and metadata writes and every fsync stay on the synchronous path).
pub fn uring_workloads() -> Vec<(String, Cfg, Vec<Op>)> {
    let mut disk = Cfg::persistent(12);
    disk.cache = true;
    disk.uring = true;
    vec![
        ("uring-two-batches".to_string(), disk, vec![ins(0, 0), ins(1, 2), Op::Flush, Op::Delete { k: 1, ts: 0 }, ins(0, 1), Op::Flush]),
        ("uring-overwrite".to_string(), disk, vec![ins(0, 2), Op::Flush, ins(0, 0), ins(2, 1), ins(3, 0), Op::Flush, Op::Flush]),
    ]
}

pub fn workload_by_index(thorough: bool, wi: usize) -> (String, Cfg, Vec<Op>) {
    if wi >= 100 {
        uring_workloads().swap_remove(wi - 100)
    } else {
        workloads(thorough).swap_remove(wi)
    }
}

pub struct FaultRun {
    pub calls: Vec<CallKind>,
    pub problems: Vec<String>,
    pub machinery: Option<String>,
    pub images: u64,
    pub recoveries: u64,
    pub outs: Vec<Out>,
    pub indeterminate: bool,
    /// io_uring consultations seen: enter, push, completion
    pub uring_counts: [usize; 3],
}

/// Execute `ops` under `plan`, then heal the device, and apply every oracle.
pub fn run(cfg: Cfg, t: &Tables, ops: &[Op], plan: &Plan, seen: &Mutex<HashSet<u128>>) -> FaultRun {
    let mut fr = FaultRun { calls: Vec::new(), problems: Vec::new(), machinery: None, images: 0, recoveries: 0, outs: Vec::new(), indeterminate: false, uring_counts: [0; 3] };
    // Shard assignment is randomised per store: with two workers rebuild until key `a`
    // lives on worker 1's shard and `b` on worker 0's (worker 0 also owns the retirement
    // queue's periodic wake-up), so that the call sequence is reproducible.
    let mut made = None;
    for _ in 0..200 {
        match Sut::create_logged(cfg, "fault", true) {
            Ok((mut sut, base)) => {
                let ok = cfg.workers < 2 || (sut.store().verif_shard_of(&t.keys[0]) == Some(1) && sut.store().verif_shard_of(&t.keys[1]) == Some(0));
                if ok {
                    made = Some((sut, base));
                    break;
                }
                sut.close();
            }
            Err(e) => {
                fr.machinery = Some(e);
                return fr;
            }
        }
    }
    let Some((mut sut, base)) = made else {
        fr.machinery = Some("no store with the wanted shard assignment in 200 attempts".into());
        return fr;
    };
    {
        let mut f = sut.sess.fault.lock();
        f.enabled = true;
        // code 4: one logical write that keeps failing - the call and its two retries
        f.plan = plan
            .answers
            .iter()
            .flat_map(|(i, a)| if *a == 4 { vec![(*i, IoAnswer::FailBefore), (*i + 1, IoAnswer::FailBefore), (*i + 2, IoAnswer::FailBefore)] } else { vec![(*i, answer(*a))] })
            .collect();
        f.fail_from = plan.fail_from;
        f.fail_from_kind = plan.from_kind;
        f.uring_plan = plan.uring.clone();
        f.uring_counts = [0; 3];
        f.calls.clear();
    }
    let mut model = Model::new(cfg, T0);
    let mut snapshots = Vec::new();
    let mut all_ops: Vec<Op> = Vec::new();
    let keys = crash::tables_keys(t);
    let indeterminate = std::cell::Cell::new(false);
    let step = |sut: &mut Sut, model: &mut Model, op: &Op, fr: &mut FaultRun, all_ops: &mut Vec<Op>, snapshots: &mut Vec<_>, faults_on: bool| {
        let i = all_ops.len();
        sut.sess.mark(1, i as u64);
        let out = sut.apply(t, op);
        let ts = crate::sched::take_thread_timestamp();
        sut.sess.mark(2, i as u64);
        match (op, &out) {
            (Op::Flush | Op::Tick, Out::Err(e)) => {
                if e == "IndeterminateWrite" {
                    indeterminate.set(true);
                }
                if !faults_on && !indeterminate.get() {
                    fr.problems.push(format!("C09: flush() still fails with {e} although the device works again"));
                }
            }
            (Op::Flush | Op::Tick, Out::Unit) => {}
            _ => {
                if let Err(e) = model.step(t, op, &out, ts) {
                    fr.problems.push(format!("C09: under I/O faults {} -> {}: {e}", t.describe(op), out.brief()));
                }
            }
        }
        all_ops.push(*op);
        fr.outs.push(out);
        snapshots.push(model.map.clone());
        // reads keep returning the latest accepted values
        for (ki, key) in t.keys.iter().enumerate() {
            let got = sut.apply(t, &Op::Get(ki as u8));
            let want = match model.map.get(key) {
                Some(g) if !model.expired(g) => Out::Bytes(g.value.clone()),
                _ => Out::err("KeyNotFound"),
            };
            if got != want {
                fr.problems.push(format!(
                    "C09: after {} (step {i}) get({}) returned {} but the latest accepted value is {}",
                    t.describe(op),
                    show(key),
                    got.brief(),
                    want.brief()
                ));
            }
        }
    };
    for op in ops {
        step(&mut sut, &mut model, op, &mut fr, &mut all_ops, &mut snapshots, true);
    }
    fr.calls = sut.sess.fault.lock().calls.clone();
    fr.uring_counts = sut.sess.fault.lock().uring_counts;
    // ---- the device works again
    {
        let mut f = sut.sess.fault.lock();
        f.plan.clear();
        f.fail_from = None;
        f.uring_plan.clear();
    }
    step(&mut sut, &mut model, &Op::Flush, &mut fr, &mut all_ops, &mut snapshots, false);
    let healed_ok = fr.outs.last() == Some(&Out::Unit);
    if !healed_ok && !indeterminate.get() {
        // one retry is allowed to clear transient state (e.g. a requeued batch)
        step(&mut sut, &mut model, &Op::Flush, &mut fr, &mut all_ops, &mut snapshots, false);
    }
    sut.sess.mark(3, 0);
    sut.close();
    // every deallocation of the run has happened by now (the store is gone): was a buffer
    // returned to the allocator while the kernel still owned it?
    if let Some((_, len)) = crate::kledger::take_violation() {
        fr.problems.push(format!(
            "C20: a write buffer of {len} bytes queued in an io_uring submission was returned to the allocator before its completion was seen (the kernel may still be reading from it)"
        ));
    }
    if let Some(id) = *sut.sess.uring_id_clash.lock() {
        fr.problems.push(format!(
            "C20: an io_uring submission was given completion id {id} while an earlier submission with the same id had not been reaped: that write's completion will be taken for the new one's, and the new buffer released while the kernel still reads it"
        ));
    }
    if crate::kledger::overflowed() {
        fr.machinery = Some("kernel-ownership ledger overflowed".into());
    }
    let log = sut.sess.take_log();
    // ---- crash images of the whole history against the acknowledgement windows
    let ob = Obligations::from_path(&keys, &all_ops, &fr.outs, &snapshots, &log, cfg.ttl, false);
    let opts = CrashOpts { sector_tear: false, reopen_cycles: 0, nest: 0, now: model.now, probe_auto_ts: false, continue_after: false };
    let ctx = hash64(&[format!("{:?}{:?}", ob.hists, ob.acks.iter().map(|a| &a.1).collect::<Vec<_>>()).as_bytes()]);
    let (st, findings) = crash::check_history(&cfg, &base, &log, &ob, 0, &opts, seen, ctx);
    fr.images = st.images;
    fr.recoveries = st.recoveries;
    for f in findings {
        let tag = super::tag_of(&f.msg).unwrap_or_default();
        if tag == "C02" || tag == "C03" || tag == "C11" {
            fr.problems.push(format!("C09: after the injected faults a crash image violates durability: {} [{}]", f.msg, f.desc));
        }
    }
    fr.indeterminate = indeterminate.get();
    // ---- after an indeterminate failure: reopen a copy of the device, flush must work
    if indeterminate.get() {
        let mut img = base.clone();
        for ev in &log {
            if let IoEv::W { off, data, .. } = ev {
                let o = *off as usize;
                if o + data.len() <= img.len() {
                    img[o..o + data.len()].copy_from_slice(data);
                }
            }
        }
        let f = TempFile::new("fault-reopen");
        std::fs::write(&f.0, &img).unwrap();
        let sess = crate::session::Session::new();
        sess.clock.store(model.now, Ordering::SeqCst);
        sess.set_flag(crate::session::F_NO_URING, true);
        match Sut::open_existing(cfg, f.path(), sess) {
            Ok(mut s2) => {
                let _ = s2.apply(t, &ins(1, 1));
                let out = s2.apply(t, &Op::Flush);
                if out != Out::Unit {
                    fr.problems.push(format!("C09: after an indeterminate failure and a reopen, flush() returned {}", out.brief()));
                }
                s2.close();
            }
            Err(e) => fr.problems.push(format!("C09: the device cannot be reopened after an indeterminate failure: {e:?}")),
        }
    }
    fr
}

fn plan_to_string(p: &Plan) -> String {
    let a: Vec<String> = p.answers.iter().map(|(i, c)| format!("{i}:{c}")).collect();
    let u: Vec<String> = p.uring.iter().map(|(k, i)| format!("{}{i}", *k as char)).collect();
    format!("{}|{}:{}|{}", a.join(","), p.fail_from.map_or("-".to_string(), |f| f.to_string()), p.from_kind, u.join(","))
}

fn plan_from_string(s: &str) -> Plan {
    let mut parts = s.split('|');
    let a = parts.next().unwrap_or("");
    let f = parts.next().unwrap_or("-");
    let uring: Vec<(u8, usize)> = parts.next().unwrap_or("").split(',').filter(|x| !x.is_empty()).filter_map(|x| x[1..].parse().ok().map(|i| (x.as_bytes()[0], i))).collect();
    let answers = a
        .split(',')
        .filter(|x| !x.is_empty())
        .filter_map(|x| x.split_once(':').map(|(i, c)| (i.parse().unwrap_or(0), c.parse().unwrap_or(1))))
        .collect();
    let (from, kind) = f.split_once(':').unwrap_or((f, "0"));
    Plan { answers, fail_from: from.parse().ok(), from_kind: kind.parse().unwrap_or(0), uring }
}

struct PlanResult {
    plan: Plan,
    calls: Vec<CallKind>,
    problems: Vec<String>,
    machinery: Option<String>,
    images: u64,
    recoveries: u64,
    outs_hash: u64,
    uring_counts: [usize; 3],
}

/// Child entry: `fv c09-worker <thorough> <workload index> <file with one plan per line>`.
/// (feoxdb keeps every file that saw an indeterminate write open for the life of the
/// process; running plans in short-lived children keeps the descriptor count bounded.)
pub fn worker(args: &[String]) -> i32 {
    use std::io::Write;
    let thorough = args[0] == "1";
    let wi: usize = args[1].parse().unwrap();
    let text = std::fs::read_to_string(&args[2]).unwrap_or_default();
    let t = tables();
    let (_, cfg, ops) = workload_by_index(thorough, wi);
    let seen: Mutex<HashSet<u128>> = Mutex::new(HashSet::new());
    let out = std::io::stdout();
    for line in text.lines().filter(|l| !l.is_empty()) {
        let plan = plan_from_string(line);
        let r = run(cfg, &t, &ops, &plan, &seen);
        let calls: String = r.calls.iter().map(|c| if *c == CallKind::Write { 'W' } else { 'F' }).collect();
        let mut o = out.lock();
        let _ = writeln!(o, "R\t{line}\t{calls}\t{}\t{}\t{}\t{},{},{}", r.images, r.recoveries, hash64(&[format!("{:?}", r.outs).as_bytes()]), r.uring_counts[0], r.uring_counts[1], r.uring_counts[2]);
        if let Some(m) = r.machinery {
            let _ = writeln!(o, "M\t{line}\t{}", m.replace('\n', " "));
        }
        for p in r.problems {
            let _ = writeln!(o, "P\t{line}\t{}", p.replace('\n', " // "));
        }
        let _ = o.flush();
    }
    0
}

fn exec_plans(thorough: bool, wi: usize, plans: Vec<Plan>, dl: &Deadline, stop: &AtomicBool) -> Vec<PlanResult> {
    let exe = std::env::current_exe().expect("own path");
    let dir = crate::util::scratch_root();
    let threads = crate::util::worker_threads();
    let chunk = (plans.len().div_ceil(threads)).clamp(1, 1500);
    let chunks: Vec<Vec<Plan>> = plans.chunks(chunk).map(|c| c.to_vec()).collect();
    let results: Mutex<Vec<PlanResult>> = Mutex::new(Vec::new());
    let counter = AtomicU64::new(0);
    par_for_each(chunks, threads, stop, |_, chunk| {
        if dl.expired() {
            stop.store(true, Ordering::Relaxed);
            return;
        }
        let id = counter.fetch_add(1, Ordering::Relaxed);
        let file = dir.join(format!("c09-plans-{wi}-{id}-{}.txt", std::process::id()));
        let text: String = chunk.iter().map(|p| plan_to_string(p) + "\n").collect();
        std::fs::write(&file, text).unwrap();
        let out = crate::util::child_command(&exe)
            .args(["c09-worker", if thorough { "1" } else { "0" }, &wi.to_string(), file.to_str().unwrap()])
            .stderr(std::process::Stdio::null())
            .output();
        let _ = std::fs::remove_file(&file);
        let Ok(out) = out else { return };
        let text = String::from_utf8_lossy(&out.stdout);
        let mut local: Vec<PlanResult> = Vec::new();
        for line in text.lines() {
            let f: Vec<&str> = line.split('\t').collect();
            match f.first().copied() {
                Some("R") if f.len() >= 6 => local.push(PlanResult {
                    plan: plan_from_string(f[1]),
                    calls: f[2].chars().map(|c| if c == 'W' { CallKind::Write } else { CallKind::Fsync }).collect(),
                    problems: Vec::new(),
                    machinery: None,
                    images: f[3].parse().unwrap_or(0),
                    recoveries: f[4].parse().unwrap_or(0),
                    outs_hash: f[5].parse().unwrap_or(0),
                    uring_counts: {
                        let v: Vec<usize> = f.get(6).unwrap_or(&"").split(',').filter_map(|x| x.parse().ok()).collect();
                        [v.first().copied().unwrap_or(0), v.get(1).copied().unwrap_or(0), v.get(2).copied().unwrap_or(0)]
                    },
                }),
                Some("P") if f.len() >= 3 => {
                    if let Some(l) = local.last_mut() {
                        l.problems.push(f[2].to_string());
                    }
                }
                Some("M") if f.len() >= 3 => {
                    if let Some(l) = local.last_mut() {
                        l.machinery = Some(f[2].to_string());
                    }
                }
                _ => {}
            }
        }
        if !out.status.success() {
            // the child died: the plan after the last reported one is the culprit
            let next = chunk.get(local.len()).cloned().unwrap_or(Plan::none());
            let by_signal = {
                use std::os::unix::process::ExitStatusExt;
                out.status.signal().is_some()
            };
            local.push(PlanResult {
                plan: next,
                calls: Vec::new(),
                problems: if by_signal { vec![format!("C09: the process executing this fault plan was killed ({:?})", out.status)] } else { Vec::new() },
                machinery: if by_signal { None } else { Some(format!("fault-plan worker exited with {:?}", out.status)) },
                images: 0,
                recoveries: 0,
                outs_hash: 0,
                uring_counts: [0; 3],
            });
        }
        results.lock().unwrap().extend(local);
    });
    results.into_inner().unwrap()
}

pub fn check(tier: &str, budget_s: f64, report: &mut Report) {
    let thorough = tier == "thorough";
    let t = tables();
    let dl = Deadline::new(budget_s);
    let seen: Mutex<HashSet<u128>> = Mutex::new(HashSet::new());
    let mut runs = 0u64;
    let mut images = 0u64;
    let mut recoveries = 0u64;
    let mut outcome_set: HashSet<u64> = HashSet::new();
    let mut per = serde_json::Map::new();
    let mut exhaustive = true;
    for (wi, (name, cfg, ops)) in workloads(thorough).into_iter().enumerate() {
        // the long hole-refill workloads get one deviation less (their call sequences are 3x longer)
        let long = name.starts_with("hole-refill");
        let max_dev: usize = if thorough { 3 } else { 2 } - usize::from(long);
        // 0 deviations: learn the call sequence
        let base_run = run(cfg, &t, &ops, &Plan::none(), &seen);
        if let Some(m) = base_run.machinery {
            report.machinery(format!("[{name}] {m}"));
            continue;
        }
        for p in &base_run.problems {
            report.violation(format!("fault|{name}|no-fault|{}", p.chars().take(120).collect::<String>()), format!("workload {name} without faults: {p}"), json!({"engine":"fault","workload":name,"plan":"none"}));
        }
        let n = base_run.calls.len();
        let mut level: Vec<Plan> = Vec::new();
        for i in 0..n {
            let codes: &[u8] = if base_run.calls[i] == CallKind::Write { &[1, 2, 3, 4] } else { &[1, 2] };
            for &c in codes {
                level.push(Plan::single(i, c));
            }
            level.push(Plan::from(i, 0));
            if base_run.calls[i] == CallKind::Write {
                // one class of writes keeps failing from here on, the rest of the device works
                for kind in 1..=3u8 {
                    level.push(Plan::from(i, kind));
                }
            }
        }
        let singles = level.len();
        let stop = AtomicBool::new(false);
        let mut bad: Vec<(Plan, String)> = Vec::new();
        let mut depth: usize = 1;
        let mut executed = 0u64;
        let mut completed_levels = 0;
        while !level.is_empty() {
            let n_level = level.len() as u64;
            let results = exec_plans(thorough, wi, std::mem::take(&mut level), &dl, &stop);
            if stop.load(Ordering::Relaxed) || (results.len() as u64) < n_level {
                exhaustive = false;
            }
            let mut next: Vec<Plan> = Vec::new();
            for r in results {
                runs += 1;
                images += r.images;
                recoveries += r.recoveries;
                outcome_set.insert(r.outs_hash);
                if let Some(m) = r.machinery {
                    bad.push((r.plan.clone(), format!("MACHINERY {m}")));
                    continue;
                }
                for p in r.problems {
                    if bad.len() < 60 {
                        bad.push((r.plan.clone(), p));
                    }
                }
                // further deviations are placed relative to the faulted run's own call sequence
                if depth < max_dev && r.plan.fail_from.is_none() && r.plan.answers.len() == depth {
                    let (i0, c0) = *r.plan.answers.last().unwrap();
                    for j in i0 + if c0 == 4 { 3 } else { 1 }..r.calls.len() {
                        let codes: &[u8] = if r.calls[j] == CallKind::Write { &[1, 2, 3] } else { &[1, 2] };
                        for &c in codes {
                            let mut a = r.plan.answers.clone();
                            a.push((j, c));
                            next.push(Plan { answers: a, ..Plan::none() });
                        }
                    }
                }
            }
            if stop.load(Ordering::Relaxed) {
                break;
            }
            executed += n_level;
            completed_levels = depth;
            depth += 1;
            next.sort();
            next.dedup();
            level = next;
        }
        bad.sort();
        for (plan, msg) in bad.into_iter().take(6) {
            if let Some(m) = msg.strip_prefix("MACHINERY ") {
                report.machinery(format!("[{name}] {m}"));
                continue;
            }
            let kinds: Vec<String> = plan
                .answers
                .iter()
                .map(|(i, c)| if *c == 4 { format!("calls {i}..={} -> FailBefore (a write and its retries)", i + 2) } else { format!("call {i} -> {:?}", answer(*c)) })
                .collect();
            report.violation(
                format!("fault|{name}|{plan:?}|{}", msg.chars().take(120).collect::<String>()),
                format!("workload {name}: {:?}\nfault plan: {:?} fail_from={:?} ({})\n{msg}", ops.iter().map(|o| t.describe(o)).collect::<Vec<_>>(), kinds, plan.fail_from, ["every call", "record writes only", "retirement-marker writes only", "journal writes only"][plan.from_kind.min(3) as usize]),
                json!({"engine":"fault","workload":name,"plan":format!("{plan:?}")}),
            );
        }
        per.insert(name.clone(), json!({"device_calls": n, "single_deviation_plans": singles, "plans_executed": executed, "deviation_levels_completed": completed_levels}));
        report.sample(json!({"workload": name, "ops": ops.iter().map(|o| t.describe(o)).collect::<Vec<_>>(), "device_calls": n, "call_kinds": format!("{:?}", base_run.calls)}));
    }
    report.add("evaluations", runs);
    report.add("distinct_nontrivial", outcome_set.len() as u64);
    report.set("rule", "one evaluation = one workload executed under one fault plan (answers for specific device calls, or permanent failure from a call on); distinct_nontrivial counts distinct vectors of call results observed across plans");
    report.add("crash_images_enumerated", images);
    report.add("recoveries_run", recoveries);
    report.set("workloads", serde_json::Value::Object(per));
    report.set("max_deviations", if thorough { 3 } else { 2 });
    report.set("max_deviations_long_workloads", if thorough { 2 } else { 1 });
    report.set("exhaustive", exhaustive);
    report.assumptions.push("faults are injected on the synchronous write path (io_uring disabled); a failed fsync makes nothing newly durable (before) or everything (after)".into());
}

/// The io_uring batch path: every single deviation on the submission / completion seam
/// (enter interrupted, enter fails, enter interrupted then fails, submission queue full at
/// each push, each completion reporting an error or a short write), alone and paired with
/// every other single deviation of the workload (io_uring or synchronous path).
/// `for_c20`: report the kernel-ownership verdicts (and panics) instead of the C09 ones.
pub fn check_uring(budget_s: f64, for_c20: bool, report: &mut Report) {
    let t = tables();
    let dl = Deadline::new(budget_s);
    let seen: Mutex<HashSet<u128>> = Mutex::new(HashSet::new());
    let mut per = serde_json::Map::new();
    let mut outcome_set: HashSet<u64> = HashSet::new();
    let (mut runs, mut images, mut recoveries) = (0u64, 0u64, 0u64);
    let mut exhaustive = true;
    let n_workloads = uring_workloads().len();
    for (i, (name, cfg, ops)) in uring_workloads().into_iter().enumerate() {
        let wi = 100 + i;
        let base_run = run(cfg, &t, &ops, &Plan::none(), &seen);
        if let Some(m) = base_run.machinery {
            report.machinery(format!("[{name}] {m}"));
            continue;
        }
        if base_run.uring_counts[1] == 0 {
            report.machinery(format!("[{name}] no io_uring submission was seen: the ring is not in use (hooks missing or io_uring unavailable)"));
            continue;
        }
        for p in &base_run.problems {
            if p.starts_with("C20:") == for_c20 {
                report.violation(format!("uring|{name}|no-fault|{}", p.chars().take(120).collect::<String>()), format!("workload {name} without faults: {p}"), json!({"engine":"fault","workload":name,"plan":"none"}));
            }
        }
        let [enters, pushes, cqes] = base_run.uring_counts;
        // single deviations on the ring
        let mut ring: Vec<Vec<(u8, usize)>> = Vec::new();
        for e in 0..enters {
            ring.push(vec![(b'E', e)]);
            ring.push(vec![(b'I', e)]);
            ring.push(vec![(b'I', e), (b'E', e + 1)]);
        }
        for q in 0..pushes {
            ring.push(vec![(b'Q', q)]);
        }
        for c in 0..cqes {
            ring.push(vec![(b'C', c)]);
            ring.push(vec![(b'S', c)]);
        }
        // single deviations on the synchronous path of the same workload
        let mut sync: Vec<Plan> = Vec::new();
        for (i, kind) in base_run.calls.iter().enumerate() {
            let codes: &[u8] = if *kind == CallKind::Write { &[1, 2, 3] } else { &[1, 2] };
            for &c in codes {
                sync.push(Plan::single(i, c));
            }
        }
        let level1: Vec<Plan> = ring.iter().map(|u| Plan { uring: u.clone(), ..Plan::none() }).collect();
        let mut level2: Vec<Plan> = Vec::new();
        for (a, ua) in ring.iter().enumerate() {
            for ub in ring.iter().skip(a + 1) {
                if ua.iter().any(|x| ub.contains(x)) {
                    continue;
                }
                let mut u = ua.clone();
                u.extend(ub.iter().copied());
                u.sort();
                level2.push(Plan { uring: u, ..Plan::none() });
            }
            for s in &sync {
                level2.push(Plan { uring: ua.clone(), ..s.clone() });
            }
        }
        level2.sort();
        level2.dedup();
        let stop = AtomicBool::new(false);
        let mut bad: Vec<(Plan, String)> = Vec::new();
        let mut completed_levels = 0;
        let mut executed = 0u64;
        let (n1, n2) = (level1.len(), level2.len());
        // the remaining budget is shared between the workloads still to run
        let share = Deadline::new(((budget_s - dl.elapsed()) / (n_workloads - i) as f64).max(2.0));
        for (depth, level) in [level1, level2].into_iter().enumerate() {
            let n_level = level.len() as u64;
            // level 1 is the floor of the check: it runs whatever the clock says
            let level_dl = if depth == 0 { Deadline::new(600.0) } else { Deadline::new((share.limit() - share.elapsed()).max(0.5)) };
            let results = exec_plans(false, wi, level, &level_dl, &stop);
            let done = results.len() as u64;
            for r in results {
                runs += 1;
                images += r.images;
                recoveries += r.recoveries;
                outcome_set.insert(r.outs_hash);
                if let Some(m) = r.machinery {
                    bad.push((r.plan.clone(), format!("MACHINERY {m}")));
                    continue;
                }
                for p in r.problems {
                    let mine = if for_c20 { p.starts_with("C20:") || p.contains("panicked") || p.contains("was killed") } else { !p.starts_with("C20:") };
                    if mine && bad.len() < 60 {
                        bad.push((r.plan.clone(), p));
                    }
                }
            }
            executed += done;
            if stop.load(Ordering::Relaxed) || done < n_level {
                exhaustive = false;
                break;
            }
            completed_levels = depth + 1;
        }
        bad.sort();
        for (plan, msg) in bad.into_iter().take(6) {
            if let Some(m) = msg.strip_prefix("MACHINERY ") {
                report.machinery(format!("[{name}] {m}"));
                continue;
            }
            let ring_text: Vec<String> = plan
                .uring
                .iter()
                .map(|(k, i)| {
                    format!(
                        "{} #{i}",
                        match *k {
                            b'E' => "io_uring_enter fails",
                            b'I' => "io_uring_enter is interrupted",
                            b'Q' => "submission queue full at push",
                            b'C' => "completion reports an error",
                            _ => "completion reports a short write",
                        }
                    )
                })
                .collect();
            report.violation(
                format!("uring|{name}|{}|{}", plan_to_string(&plan), msg.chars().take(120).collect::<String>()),
                format!("workload {name}: {:?}\nio_uring deviations: {ring_text:?}; synchronous-path answers: {:?}\n{msg}", ops.iter().map(|o| t.describe(o)).collect::<Vec<_>>(), plan.answers),
                json!({"engine":"fault","workload":name,"plan":plan_to_string(&plan)}),
            );
        }
        per.insert(
            name.clone(),
            json!({"io_uring_enter_calls": enters, "submissions": pushes, "completions": cqes, "synchronous_device_calls": base_run.calls.len(),
                   "single_deviation_plans": n1, "pair_plans": n2, "plans_executed": executed, "deviation_levels_completed": completed_levels}),
        );
    }
    let (queued, completed, outstanding, _) = crate::kledger::counters();
    let _ = (queued, completed, outstanding);
    report.add("evaluations", runs);
    report.add("uring_plans_executed", runs);
    report.add("distinct_nontrivial", outcome_set.len() as u64);
    report.add("crash_images_enumerated", images);
    report.add("recoveries_run", recoveries);
    report.set("uring_workloads", serde_json::Value::Object(per));
    report.set("uring_exhaustive", exhaustive);
    report.assumptions.push(
        "io_uring seam: an injected io_uring_enter failure replaces the call (with SQPOLL the kernel may or may not execute the published submissions: the device log treats them as in flight for ever); \
         a buffer is kernel-owned from its submission until the code reaps its completion; completions' results are overridden in place of real device errors"
            .into(),
    );
}
