//! C09 — FAULT: deviation-bounded enumeration of I/O answers. A decision point is the
//! k-th device call (write or fsync) of a workload; the default answer is "proceed";
//! deviations are fail-before, fail-after, short write, and "everything fails from
//! call k on". After every run the complete device log goes through the crash engine.

use crate::crash::{self, CrashOpts, Obligations};
use crate::model::Model;
use crate::session::{CallKind, IoEv};
use crate::suites::{big_value, FUT};
use crate::sut::{Cfg, Op, Out, Sut, Tables, T0};
use crate::util::{hash64, par_for_each, show, Deadline, Report, TempFile};
use feoxdb::verif::IoAnswer;
use serde_json::json;
use std::collections::HashSet;
use std::sync::atomic::{AtomicBool, AtomicU64, Ordering};
use std::sync::Mutex;

#[derive(Clone, Debug, PartialEq, Eq, Hash, PartialOrd, Ord)]
pub struct Plan {
    pub answers: Vec<(usize, u8)>, // (call index, 1 = fail before, 2 = fail after, 3 = short)
    pub fail_from: Option<usize>,
}

fn answer(code: u8) -> IoAnswer {
    match code {
        1 => IoAnswer::FailBefore,
        2 => IoAnswer::FailAfter,
        _ => IoAnswer::Short,
    }
}

fn tables() -> Tables {
    Tables {
        keys: vec![b"a".to_vec(), b"b".to_vec()],
        values: vec![b"x".to_vec(), b"y".to_vec(), big_value(5000, 0x61), 7i64.to_le_bytes().to_vec()],
        bounds: vec![b"".to_vec(), vec![0xff; 4]],
        patches: vec![],
    }
}

fn ins(k: u8, v: u8) -> Op {
    Op::Insert { k, v, ts: 0, ttl: 0, bytes: false }
}

pub fn workloads(thorough: bool) -> Vec<(String, Cfg, Vec<Op>)> {
    let mut disk = Cfg::persistent(12);
    disk.cache = true;
    let mut ttl = disk;
    ttl.ttl = true;
    let mut v = vec![
        ("grow-delete".to_string(), disk, vec![ins(0, 0), Op::Flush, ins(0, 2), ins(1, 0), Op::Delete { k: 0, ts: 0 }, Op::Flush]),
        ("two-batches".to_string(), disk, vec![ins(0, 0), ins(1, 2), Op::Flush, Op::Delete { k: 1, ts: 0 }, ins(0, 1), Op::Flush]),
        ("overwrite-flush-flush".to_string(), disk, vec![ins(0, 2), Op::Flush, ins(0, 0), Op::Flush, Op::Flush]),
        ("ttl-rewrite".to_string(), ttl, vec![Op::Insert { k: 0, v: 0, ts: 0, ttl: 1000, bytes: false }, Op::Flush, Op::UpdateTtl { k: 0, secs: 5000 }, Op::Flush]),
        ("batch-of-three".to_string(), disk, vec![ins(0, 0), ins(1, 1), Op::Flush, ins(0, 1), ins(1, 0), Op::Incr { k: 1, delta: 0, ts: FUT, ttl: 0 }, Op::Flush]),
    ];
    if thorough {
        v.push(("tick-then-flush".to_string(), disk, vec![ins(0, 0), Op::Tick, ins(0, 2), Op::Tick, Op::Delete { k: 0, ts: 0 }, Op::Flush]));
        let mut v1 = disk;
        v1.format = 1;
        v.push(("v1-grow-delete".to_string(), v1, vec![ins(0, 0), Op::Flush, ins(0, 2), ins(1, 0), Op::Delete { k: 0, ts: 0 }, Op::Flush]));
    }
    v
}

pub struct FaultRun {
    pub calls: Vec<CallKind>,
    pub problems: Vec<String>,
    pub machinery: Option<String>,
    pub images: u64,
    pub recoveries: u64,
    pub outs: Vec<Out>,
}

/// Execute `ops` under `plan`, then heal the device, and apply every oracle.
pub fn run(cfg: Cfg, t: &Tables, ops: &[Op], plan: &Plan, seen: &Mutex<HashSet<u128>>) -> FaultRun {
    let mut fr = FaultRun { calls: Vec::new(), problems: Vec::new(), machinery: None, images: 0, recoveries: 0, outs: Vec::new() };
    let (mut sut, base) = match Sut::create_logged(cfg, "fault", true) {
        Ok(x) => x,
        Err(e) => {
            fr.machinery = Some(e);
            return fr;
        }
    };
    {
        let mut f = sut.sess.fault.lock();
        f.enabled = true;
        f.plan = plan.answers.iter().map(|(i, a)| (*i, answer(*a))).collect();
        f.fail_from = plan.fail_from;
        f.calls.clear();
    }
    let mut model = Model::new(cfg, T0);
    let mut snapshots = Vec::new();
    let mut all_ops: Vec<Op> = Vec::new();
    let keys = crash::tables_keys(t);
    let indeterminate = std::cell::Cell::new(false);
    let step = |sut: &mut Sut, model: &mut Model, op: &Op, fr: &mut FaultRun, all_ops: &mut Vec<Op>, snapshots: &mut Vec<_>, faults_on: bool| {
        let i = all_ops.len();
        sut.sess.mark(1, i as u64);
        let out = sut.apply(t, op);
        let ts = crate::sched::take_thread_timestamp();
        sut.sess.mark(2, i as u64);
        match (op, &out) {
            (Op::Flush | Op::Tick, Out::Err(e)) => {
                if e == "IndeterminateWrite" {
                    indeterminate.set(true);
                }
                if !faults_on && !indeterminate.get() {
                    fr.problems.push(format!("C09: flush() still fails with {e} although the device works again"));
                }
            }
            (Op::Flush | Op::Tick, Out::Unit) => {}
            _ => {
                if let Err(e) = model.step(t, op, &out, ts) {
                    fr.problems.push(format!("C09: under I/O faults {} -> {}: {e}", t.describe(op), out.brief()));
                }
            }
        }
        all_ops.push(*op);
        fr.outs.push(out);
        snapshots.push(model.map.clone());
        // reads keep returning the latest accepted values
        for (ki, key) in t.keys.iter().enumerate() {
            let got = sut.apply(t, &Op::Get(ki as u8));
            let want = match model.map.get(key) {
                Some(g) if !model.expired(g) => Out::Bytes(g.value.clone()),
                _ => Out::err("KeyNotFound"),
            };
            if got != want {
                fr.problems.push(format!(
                    "C09: after {} (step {i}) get({}) returned {} but the latest accepted value is {}",
                    t.describe(op),
                    show(key),
                    got.brief(),
                    want.brief()
                ));
            }
        }
    };
    for op in ops {
        step(&mut sut, &mut model, op, &mut fr, &mut all_ops, &mut snapshots, true);
    }
    fr.calls = sut.sess.fault.lock().calls.clone();
    // ---- the device works again
    {
        let mut f = sut.sess.fault.lock();
        f.plan.clear();
        f.fail_from = None;
    }
    step(&mut sut, &mut model, &Op::Flush, &mut fr, &mut all_ops, &mut snapshots, false);
    let healed_ok = fr.outs.last() == Some(&Out::Unit);
    if !healed_ok && !indeterminate.get() {
        // one retry is allowed to clear transient state (e.g. a requeued batch)
        step(&mut sut, &mut model, &Op::Flush, &mut fr, &mut all_ops, &mut snapshots, false);
    }
    sut.sess.mark(3, 0);
    sut.close();
    let log = sut.sess.take_log();
    // ---- crash images of the whole history against the acknowledgement windows
    let ob = Obligations::from_path(&keys, &all_ops, &fr.outs, &snapshots, &log, cfg.ttl, false);
    let opts = CrashOpts { sector_tear: false, reopen_cycles: 0, nest: 0, now: model.now };
    let ctx = hash64(&[format!("{:?}{:?}", ob.hists, ob.acks.iter().map(|a| &a.1).collect::<Vec<_>>()).as_bytes()]);
    let (st, findings) = crash::check_history(&cfg, &base, &log, &ob, 0, &opts, seen, ctx);
    fr.images = st.images;
    fr.recoveries = st.recoveries;
    for f in findings {
        let tag = super::tag_of(&f.msg).unwrap_or_default();
        if tag == "C02" || tag == "C03" || tag == "C11" {
            fr.problems.push(format!("C09: after the injected faults a crash image violates durability: {} [{}]", f.msg, f.desc));
        }
    }
    // ---- after an indeterminate failure: reopen a copy of the device, flush must work
    if indeterminate.get() {
        let mut img = base.clone();
        for ev in &log {
            if let IoEv::W { off, data, .. } = ev {
                let o = *off as usize;
                if o + data.len() <= img.len() {
                    img[o..o + data.len()].copy_from_slice(data);
                }
            }
        }
        let f = TempFile::new("fault-reopen");
        std::fs::write(&f.0, &img).unwrap();
        let sess = crate::session::Session::new();
        sess.clock.store(model.now, Ordering::SeqCst);
        sess.set_flag(crate::session::F_NO_URING, true);
        match Sut::open_existing(cfg, f.path(), sess) {
            Ok(mut s2) => {
                let _ = s2.apply(t, &ins(1, 1));
                let out = s2.apply(t, &Op::Flush);
                if out != Out::Unit {
                    fr.problems.push(format!("C09: after an indeterminate failure and a reopen, flush() returned {}", out.brief()));
                }
                s2.close();
            }
            Err(e) => fr.problems.push(format!("C09: the device cannot be reopened after an indeterminate failure: {e:?}")),
        }
    }
    fr
}

pub fn check(tier: &str, budget_s: f64, report: &mut Report) {
    let thorough = tier == "thorough";
    let t = tables();
    let dl = Deadline::new(budget_s);
    let threads = crate::util::worker_threads();
    let seen: Mutex<HashSet<u128>> = Mutex::new(HashSet::new());
    let runs = AtomicU64::new(0);
    let images = AtomicU64::new(0);
    let recoveries = AtomicU64::new(0);
    let outcome_set: Mutex<HashSet<u64>> = Mutex::new(HashSet::new());
    let mut per = serde_json::Map::new();
    let mut exhaustive = true;
    for (name, cfg, ops) in workloads(thorough) {
        // 0 deviations: learn the call sequence
        let base_run = run(cfg, &t, &ops, &Plan { answers: vec![], fail_from: None }, &seen);
        if let Some(m) = base_run.machinery {
            report.machinery(format!("[{name}] {m}"));
            continue;
        }
        for p in &base_run.problems {
            report.violation(format!("fault|{name}|no-fault|{}", p.chars().take(120).collect::<String>()), format!("workload {name} without faults: {p}"), json!({"engine":"fault","workload":name,"plan":"none"}));
        }
        let n = base_run.calls.len();
        let mut plans: Vec<Plan> = Vec::new();
        for i in 0..n {
            let codes: &[u8] = if base_run.calls[i] == CallKind::Write { &[1, 2, 3] } else { &[1, 2] };
            for &c in codes {
                plans.push(Plan { answers: vec![(i, c)], fail_from: None });
            }
            plans.push(Plan { answers: vec![], fail_from: Some(i) });
        }
        let singles = plans.len();
        // 2 deviations: after a first deviation the call sequence changes, so second
        // deviations are placed relative to the faulted run's own call sequence
        let second_level = true;
        let stop = AtomicBool::new(false);
        let bad: Mutex<Vec<(Plan, String)>> = Mutex::new(Vec::new());
        let next_plans: Mutex<Vec<Plan>> = Mutex::new(Vec::new());
        let mut level = plans;
        let mut depth = 1;
        let mut executed = 0u64;
        let mut completed_levels = 0;
        while !level.is_empty() {
            let n_level = level.len() as u64;
            par_for_each(std::mem::take(&mut level), threads, &stop, |_, plan| {
                if dl.expired() {
                    stop.store(true, Ordering::Relaxed);
                    return;
                }
                let r = run(cfg, &t, &ops, &plan, &seen);
                runs.fetch_add(1, Ordering::Relaxed);
                images.fetch_add(r.images, Ordering::Relaxed);
                recoveries.fetch_add(r.recoveries, Ordering::Relaxed);
                outcome_set.lock().unwrap().insert(hash64(&[format!("{:?}", r.outs).as_bytes()]));
                if let Some(m) = r.machinery {
                    bad.lock().unwrap().push((plan.clone(), format!("MACHINERY {m}")));
                    return;
                }
                for p in r.problems {
                    let mut b = bad.lock().unwrap();
                    if b.len() < 40 {
                        b.push((plan.clone(), p));
                    }
                }
                if second_level && depth == 1 && plan.fail_from.is_none() {
                    let (i0, _) = plan.answers[0];
                    let mut np = next_plans.lock().unwrap();
                    for j in i0 + 1..r.calls.len() {
                        let codes: &[u8] = if r.calls[j] == CallKind::Write { &[1, 2, 3] } else { &[1, 2] };
                        for &c in codes {
                            let mut a = plan.answers.clone();
                            a.push((j, c));
                            np.push(Plan { answers: a, fail_from: None });
                        }
                    }
                }
            });
            if stop.load(Ordering::Relaxed) {
                exhaustive = false;
                break;
            }
            executed += n_level;
            completed_levels = depth;
            depth += 1;
            level = std::mem::take(&mut *next_plans.lock().unwrap());
            level.sort();
            level.dedup();
        }
        let mut bad = bad.into_inner().unwrap();
        bad.sort();
        for (plan, msg) in bad.into_iter().take(6) {
            if let Some(m) = msg.strip_prefix("MACHINERY ") {
                report.machinery(format!("[{name}] {m}"));
                continue;
            }
            let kinds: Vec<String> = plan.answers.iter().map(|(i, c)| format!("call {i} ({:?}) -> {:?}", base_run.calls.get(*i), answer(*c))).collect();
            report.violation(
                format!("fault|{name}|{plan:?}|{}", msg.chars().take(120).collect::<String>()),
                format!("workload {name}: {:?}\nfault plan: {:?} fail_from={:?}\n{msg}", ops.iter().map(|o| t.describe(o)).collect::<Vec<_>>(), kinds, plan.fail_from),
                json!({"engine":"fault","workload":name,"plan":format!("{plan:?}")}),
            );
        }
        per.insert(name.clone(), json!({"device_calls": n, "single_deviation_plans": singles, "plans_executed": executed, "deviation_levels_completed": completed_levels}));
        report.sample(json!({"workload": name, "ops": ops.iter().map(|o| t.describe(o)).collect::<Vec<_>>(), "device_calls": n, "call_kinds": format!("{:?}", base_run.calls)}));
    }
    let r = runs.load(Ordering::Relaxed);
    report.add("evaluations", r);
    report.add("distinct_nontrivial", outcome_set.lock().unwrap().len() as u64);
    report.set("rule", "one evaluation = one workload executed under one fault plan (answers for specific device calls, or permanent failure from a call on); distinct_nontrivial counts distinct vectors of call results observed across plans");
    report.add("crash_images_enumerated", images.load(Ordering::Relaxed));
    report.add("recoveries_run", recoveries.load(Ordering::Relaxed));
    report.set("workloads", serde_json::Value::Object(per));
    report.set("exhaustive", exhaustive);
    report.assumptions.push("faults are injected on the synchronous write path (io_uring disabled); a failed fsync makes nothing newly durable (before) or everything (after)".into());
}
