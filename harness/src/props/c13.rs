//! C13 — sampling supplement (NOT part of the exhaustive claim, reported separately).
//!
//! The controlled scheduler checks `memory_usage() <= limit` at every scheduling point,
//! but two adjacent atomic steps on the usage counter with no hook point between them
//! (e.g. "add, then notice the overshoot and subtract again") are one step to it. Here
//! refused writers, one writer whose records always fit and one monitor run freely on a
//! store with a small limit; the oracle is the property's own instantaneous bound.

use crate::session::Session;
use crate::util::Report;
use serde_json::json;
use std::sync::atomic::{AtomicBool, AtomicU64, AtomicUsize, Ordering};

pub fn stress_supplement(report: &mut Report, seconds: f64) {
    // free-running threads need real parallelism: no CPU pinning here
    crate::util::set_home_cpu(None);
    Session::uninstall();
    let overhead = std::mem::size_of::<feoxdb::core::record::Record>();
    // room for the fitting writer's two small records and nothing else of size
    let limit = 2 * (overhead + 8 + 16) + 64;
    let store = match feoxdb::FeoxStore::builder().hash_bits(4).max_memory(limit).build() {
        Ok(s) => std::sync::Arc::new(s),
        Err(e) => {
            report.machinery(format!("C13 supplement: cannot build the store: {e:?}"));
            return;
        }
    };
    let stop = AtomicBool::new(false);
    let worst = AtomicUsize::new(0);
    let samples = AtomicU64::new(0);
    let over = AtomicU64::new(0);
    let refused_fitting = AtomicU64::new(0);
    let fitting_writes = AtomicU64::new(0);
    let hog_accepted = AtomicU64::new(0);
    let big = vec![0x42u8; limit * 4];
    let dl = crate::util::Deadline::new(seconds);
    std::thread::scope(|sc| {
        for h in 0..6 {
            let (store, stop, big, hog_accepted) = (&store, &stop, &big, &hog_accepted);
            sc.spawn(move || {
                let key = format!("hog{h}").into_bytes();
                while !stop.load(Ordering::Relaxed) {
                    if store.insert(&key, big).is_ok() {
                        hog_accepted.fetch_add(1, Ordering::Relaxed);
                    }
                }
            });
        }
        {
            let (store, stop, refused_fitting, fitting_writes) = (&store, &stop, &refused_fitting, &fitting_writes);
            sc.spawn(move || {
                let mut i = 0u64;
                while !stop.load(Ordering::Relaxed) {
                    // the same key and size every time: after the first insert this is a same-size replacement
                    match store.insert(b"fit", &(i % 251).to_le_bytes()) {
                        Ok(_) => {}
                        Err(feoxdb::FeoxError::OutOfMemory) => {
                            refused_fitting.fetch_add(1, Ordering::Relaxed);
                        }
                        Err(_) => {}
                    }
                    fitting_writes.fetch_add(1, Ordering::Relaxed);
                    i += 1;
                }
            });
        }
        for _ in 0..2 {
            let (store, stop, worst, samples, over) = (&store, &stop, &worst, &samples, &over);
            sc.spawn(move || {
                while !stop.load(Ordering::Relaxed) {
                    let u = store.memory_usage();
                    samples.fetch_add(1, Ordering::Relaxed);
                    if u > limit {
                        over.fetch_add(1, Ordering::Relaxed);
                        worst.fetch_max(u, Ordering::Relaxed);
                    }
                }
            });
        }
        while !dl.expired() && over.load(Ordering::Relaxed) == 0 {
            std::thread::sleep(std::time::Duration::from_millis(20));
        }
        stop.store(true, Ordering::Relaxed);
    });
    let n_over = over.load(Ordering::Relaxed);
    if n_over > 0 {
        report.violation(
            "limit|stress-supplement|instantaneous bound".to_string(),
            format!(
                "C13: memory_usage() was observed at {} with a limit of {limit} ({} of {} samples above the limit) while writers that are always refused ran beside a writer whose record always fits (found by the free-running sampling supplement)",
                worst.load(Ordering::Relaxed),
                n_over,
                samples.load(Ordering::Relaxed)
            ),
            json!({"engine":"c13-stress","limit":limit}),
        );
    }
    if hog_accepted.load(Ordering::Relaxed) > 0 {
        report.violation(
            "limit|stress-supplement|oversized write accepted".to_string(),
            format!("C13: a write four times the size of the memory limit ({limit}) was accepted {} times", hog_accepted.load(Ordering::Relaxed)),
            json!({"engine":"c13-stress","limit":limit}),
        );
    }
    report.set(
        "sampling_supplement",
        json!({
            "usage_samples": samples.load(Ordering::Relaxed), "samples_over_limit": n_over, "fitting_writes": fitting_writes.load(Ordering::Relaxed),
            "fitting_writes_refused": refused_fitting.load(Ordering::Relaxed), "limit": limit,
            "note": "free-running threads, not exhaustive, not counted in states/transitions; refusals of the fitting writer are reported, not judged"
        }),
    );
}
