//! C13 — sampling supplement (NOT part of the exhaustive claim, reported separately).
//!
//! The controlled scheduler checks `memory_usage() <= limit` at every scheduling point,
//! but two adjacent atomic steps on the usage counter with no hook point between them
//! (e.g. "add, then notice the overshoot and subtract again") are one step to it. Here
//! refused writers, one writer whose records always fit and one monitor run freely on a
//! store with a small limit; the oracle is the property's own instantaneous bound.

use crate::session::Session;
use crate::util::Report;
use serde_json::json;
use std::sync::atomic::{AtomicBool, AtomicU64, AtomicUsize, Ordering};

pub fn stress_supplement(report: &mut Report, seconds: f64) {
    // free-running threads need real parallelism: no CPU pinning here
    crate::util::set_home_cpu(None);
    Session::uninstall();
    let overhead = std::mem::size_of::<feoxdb::core::record::Record>();
    // room for the fitting writer's two small records and nothing else of size
    let limit = 2 * (overhead + 8 + 16) + 64;
    let store = match feoxdb::FeoxStore::builder().hash_bits(4).max_memory(limit).build() {
        Ok(s) => std::sync::Arc::new(s),
        Err(e) => {
            report.machinery(format!("C13 supplement: cannot build the store: {e:?}"));
            return;
        }
    };
    let stop = AtomicBool::new(false);
    let worst = AtomicUsize::new(0);
    let samples = AtomicU64::new(0);
    let over = AtomicU64::new(0);
    let refused_fitting = AtomicU64::new(0);
    let fitting_writes = AtomicU64::new(0);
    let hog_accepted = AtomicU64::new(0);
    let big = vec![0x42u8; limit * 4];
    let dl = crate::util::Deadline::new(seconds);
    std::thread::scope(|sc| {
        for h in 0..6 {
            let (store, stop, big, hog_accepted) = (&store, &stop, &big, &hog_accepted);
            sc.spawn(move || {
                let key = format!("hog{h}").into_bytes();
                while !stop.load(Ordering::Relaxed) {
                    if store.insert(&key, big).is_ok() {
                        hog_accepted.fetch_add(1, Ordering::Relaxed);
                    }
                }
            });
        }
        {
            let (store, stop, refused_fitting, fitting_writes) = (&store, &stop, &refused_fitting, &fitting_writes);
            sc.spawn(move || {
                let mut i = 0u64;
                while !stop.load(Ordering::Relaxed) {
                    // the same key and size every time: after the first insert this is a same-size replacement
                    match store.insert(b"fit", &(i % 251).to_le_bytes()) {
                        Ok(_) => {}
                        Err(feoxdb::FeoxError::OutOfMemory) => {
                            refused_fitting.fetch_add(1, Ordering::Relaxed);
                        }
                        Err(_) => {}
                    }
                    fitting_writes.fetch_add(1, Ordering::Relaxed);
                    i += 1;
                }
            });
        }
        for _ in 0..2 {
            let (store, stop, worst, samples, over) = (&store, &stop, &worst, &samples, &over);
            sc.spawn(move || {
                while !stop.load(Ordering::Relaxed) {
                    let u = store.memory_usage();
                    samples.fetch_add(1, Ordering::Relaxed);
                    if u > limit {
                        over.fetch_add(1, Ordering::Relaxed);
                        worst.fetch_max(u, Ordering::Relaxed);
                    }
                }
            });
        }
        while !dl.expired() && over.load(Ordering::Relaxed) == 0 {
            std::thread::sleep(std::time::Duration::from_millis(20));
        }
        stop.store(true, Ordering::Relaxed);
    });
    let n_over = over.load(Ordering::Relaxed);
    if n_over > 0 {
        report.violation(
            "limit|stress-supplement|instantaneous bound".to_string(),
            format!(
                "C13: memory_usage() was observed at {} with a limit of {limit} ({} of {} samples above the limit) while writers that are always refused ran beside a writer whose record always fits (found by the free-running sampling supplement)",
                worst.load(Ordering::Relaxed),
                n_over,
                samples.load(Ordering::Relaxed)
            ),
            json!({"engine":"c13-stress","limit":limit}),
        );
    }
    if hog_accepted.load(Ordering::Relaxed) > 0 {
        report.violation(
            "limit|stress-supplement|oversized write accepted".to_string(),
            format!("C13: a write four times the size of the memory limit ({limit}) was accepted {} times", hog_accepted.load(Ordering::Relaxed)),
            json!({"engine":"c13-stress","limit":limit}),
        );
    }
    report.set(
        "sampling_supplement",
        json!({
            "usage_samples": samples.load(Ordering::Relaxed), "samples_over_limit": n_over, "fitting_writes": fitting_writes.load(Ordering::Relaxed),
            "fitting_writes_refused": refused_fitting.load(Ordering::Relaxed), "limit": limit,
            "note": "free-running threads, not exhaustive, not counted in states/transitions; refusals of the fitting writer are reported, not judged"
        }),
    );
}

/// C07 / C12 sampling supplement (NOT part of the exhaustive claim): a window between
/// two adjacent atomic steps of the version clock (load, then compare-exchange) cannot
/// contain a scheduling point. Free-running writers with automatic timestamps hammer one
/// key while another thread publishes one explicit timestamp far ahead of the clock;
/// once every thread has returned, an automatic write must be accepted (nothing is
/// concurrent any more, so a refusal is not excused by the property).
pub fn clock_supplement(report: &mut Report, seconds: f64) {
    crate::util::set_home_cpu(None);
    Session::uninstall();
    let dl = crate::util::Deadline::new(seconds);
    let mut rounds = 0u64;
    let mut refused = 0u64;
    let mut first: Option<String> = None;
    let store = match feoxdb::FeoxStore::builder().hash_bits(4).no_memory_limit().build() {
        Ok(s) => std::sync::Arc::new(s),
        Err(e) => {
            report.machinery(format!("clock supplement: cannot build the store: {e:?}"));
            return;
        }
    };
    // three persistent hammer threads; the main thread publishes one explicit timestamp
    // per round while they are writing, then stops them and probes at quiescence
    let round_no = AtomicU64::new(0); // odd: hammering, even: idle
    let entered = AtomicUsize::new(0);
    let idle = AtomicUsize::new(0);
    let wedged = AtomicBool::new(false);
    let done = AtomicBool::new(false);
    let progress = AtomicU64::new(0);
    std::thread::scope(|sc| {
        for t in 0..3u8 {
            let (store, round_no, idle, done, progress, entered) = (&store, &round_no, &idle, &done, &progress, &entered);
            sc.spawn(move || {
                let mut seen = 0u64;
                loop {
                    // wait for the next hammering phase
                    loop {
                        if done.load(Ordering::Acquire) {
                            return;
                        }
                        let r = round_no.load(Ordering::Acquire);
                        if r % 2 == 1 && r > seen {
                            seen = r;
                            entered.fetch_add(1, Ordering::AcqRel);
                            break;
                        }
                        std::hint::spin_loop();
                    }
                    let mut i = 0u32;
                    while round_no.load(Ordering::Acquire) == seen {
                        let _ = store.insert(b"k", &[t, i as u8]);
                        progress.fetch_add(1, Ordering::Relaxed);
                        i = i.wrapping_add(1);
                    }
                    idle.fetch_add(1, Ordering::AcqRel);
                }
            });
        }
        let mut far = 4_000_000_000_000_000_000u64; // far ahead of any wall clock
        while !dl.expired() && first.is_none() {
            far += 1_000_000;
            idle.store(0, Ordering::Release);
            entered.store(0, Ordering::Release);
            let p0 = progress.load(Ordering::Relaxed);
            let guard = std::time::Instant::now();
            let stuck = |what: &str| -> bool {
                if guard.elapsed().as_secs() >= 5 {
                    wedged.store(true, Ordering::Release);
                    eprintln!("clock supplement: gave up waiting for {what}");
                    true
                } else {
                    false
                }
            };
            round_no.fetch_add(1, Ordering::AcqRel); // odd: go
            // every hammer thread has joined this round and writes are flowing
            while (entered.load(Ordering::Acquire) < 3 || progress.load(Ordering::Relaxed) < p0 + 20) && !stuck("the writers to start") {
                std::hint::spin_loop();
            }
            let _ = store.insert_with_timestamp(b"k", b"explicit", Some(far));
            round_no.fetch_add(1, Ordering::AcqRel); // even: stop
            while idle.load(Ordering::Acquire) < 3 && !stuck("the writers to stop") {
                std::hint::spin_loop();
            }
            if wedged.load(Ordering::Acquire) {
                break;
            }
            rounds += 1;
            // quiescent: every call has returned
            if let Err(e) = store.insert(b"k", b"after") {
                refused += 1;
                first = Some(format!(
                    "C07: with every earlier call returned, insert(k) with an automatic timestamp was refused ({e:?}) after an accepted insert_with_timestamp(k, {far}) — no concurrent modification excuses the refusal (C12: the clock fell behind a published timestamp); found by the free-running sampling supplement in round {rounds}"
                ));
            }
        }
        done.store(true, Ordering::Release);
        // let a writer that is still inside its loop leave it
        round_no.fetch_add(2, Ordering::AcqRel);
    });
    if wedged.load(Ordering::Acquire) {
        report.assumptions.push("the clock sampling supplement stopped early: its own threads did not rendezvous within 5 s".into());
    }
    if let Some(msg) = first {
        report.violation("clock|stress-supplement|automatic write refused at quiescence".to_string(), msg, json!({"engine":"clock-stress"}));
    }
    report.set(
        "sampling_supplement",
        json!({"rounds": rounds, "refusals_at_quiescence": refused, "note": "free-running threads, not exhaustive, not counted in states/transitions"}),
    );
}
