//! Brute-force linearizability check of a concurrent history against the LWW
//! reference model, with exactly the conservative refusals the properties permit.

use crate::model::Model;
use crate::sut::{Op, Out, Tables};
use std::collections::HashSet;

#[derive(Clone, Debug)]
pub struct OpRec {
    pub thread: usize,
    pub idx: usize,
    pub op: Op,
    pub invoke: u64,
    pub response: u64,
    pub out: Out,
    /// timestamp the store reported having resolved for this call (0 = none)
    pub ts: u64,
    /// device-log length when the call was invoked / had returned
    pub log_invoke: usize,
    pub log_response: usize,
}

pub fn key_of(op: &Op) -> Option<u8> {
    match *op {
        Op::Get(k) | Op::GetBytes(k) | Op::GetSize(k) | Op::Contains(k) | Op::GetTtl(k) | Op::Persist(k) => Some(k),
        Op::Insert { k, .. }
        | Op::Delete { k, .. }
        | Op::Cas { k, .. }
        | Op::Incr { k, .. }
        | Op::Ifa { k, .. }
        | Op::Patch { k, .. }
        | Op::UpdateTtl { k, .. } => Some(k),
        _ => None,
    }
}

fn explicit_ts(op: &Op) -> u64 {
    match *op {
        Op::Insert { ts, .. } | Op::Delete { ts, .. } | Op::Cas { ts, .. } | Op::Incr { ts, .. } | Op::Patch { ts, .. } => ts,
        _ => 0,
    }
}

/// Did this call modify its key (was it an accepted write / delete)?
pub fn accepted_modification(r: &OpRec) -> bool {
    match (&r.op, &r.out) {
        (Op::Insert { .. }, Out::Bool(_)) => true,
        (Op::Delete { .. }, Out::Unit) => true,
        (Op::Cas { .. }, Out::Bool(true)) => true,
        (Op::Incr { .. }, Out::Int(_)) => true,
        (Op::Ifa { .. }, Out::Bool(true)) => true,
        (Op::Patch { .. }, Out::Unit) => true,
        (Op::UpdateTtl { .. } | Op::Persist(_), Out::Unit) => true,
        (Op::Sweep, Out::Two(_, e)) => *e > 0,
        _ => false,
    }
}

fn eff_ts(r: &OpRec) -> u64 {
    let e = explicit_ts(&r.op);
    if e != 0 {
        e
    } else {
        r.ts
    }
}

fn overlaps(a: &OpRec, b: &OpRec) -> bool {
    a.invoke < b.response && b.invoke < a.response
}

/// May `x` be treated as a no-op (a conservative refusal the properties permit)?
fn may_be_noop(x: &OpRec, all: &[OpRec], has_memory_limit: bool) -> bool {
    let same_key = |w: &OpRec| match (key_of(&w.op), key_of(&x.op)) {
        (Some(a), Some(b)) => a == b,
        (None, _) => matches!(w.op, Op::Sweep),
        _ => false,
    };
    match &x.out {
        Out::Err(e) if e == "OlderTimestamp" => {
            // an accepted write or delete with an equal-or-newer timestamp was invoked before the rejection
            all.iter().any(|w| {
                !std::ptr::eq(w, x) && same_key(w) && accepted_modification(w) && w.invoke < x.response && (eff_ts(w) >= eff_ts(x) || matches!(w.op, Op::Sweep))
            })
        }
        Out::Bool(false) if matches!(x.op, Op::Cas { .. }) => {
            // the key was modified while the compare-and-swap ran
            all.iter().any(|w| !std::ptr::eq(w, x) && same_key(w) && accepted_modification(w) && overlaps(w, x))
        }
        Out::Err(e) if e == "StaleExtent" => all.iter().any(|w| !std::ptr::eq(w, x) && same_key(w) && accepted_modification(w) && overlaps(w, x)),
        Out::Err(e) if e == "OutOfMemory" && has_memory_limit => {
            // a concurrent reservation may hold the memory at that instant
            all.iter().any(|w| !std::ptr::eq(w, x) && overlaps(w, x))
        }
        _ => false,
    }
}

fn model_key(m: &Model) -> u64 {
    let mut p = Vec::new();
    for (k, g) in &m.map {
        p.extend_from_slice(k);
        p.push(0);
        p.extend_from_slice(&g.value);
        p.extend_from_slice(&g.ts.to_le_bytes());
        p.extend_from_slice(&g.expiry.to_le_bytes());
    }
    crate::util::hash64(&[&p])
}

/// Apply a sweep outcome to the model: `expired` keys with a lapsed expiry are removed.
fn step_sweep(m: &mut Model, expired: u64) -> Result<(), String> {
    let now = m.now;
    let dead: Vec<Vec<u8>> = m.map.iter().filter(|(_, g)| g.expiry > 0 && g.expiry < now).map(|(k, _)| k.clone()).collect();
    if (dead.len() as u64) < expired {
        return Err(format!(
            "C11: the sweeper removed {expired} keys but only {} carried a lapsed expiry at that instant",
            dead.len()
        ));
    }
    // with one TTL key per program the choice of which keys went is unambiguous
    for k in dead.into_iter().take(expired as usize) {
        m.map.remove(&k);
    }
    Ok(())
}

pub struct LinInput<'a> {
    pub tables: &'a Tables,
    pub init: &'a Model,
    pub recs: &'a [OpRec],
    /// observations made after every thread finished (on the quiescent store)
    pub finals: &'a [(Op, Out)],
    pub final_check: &'a dyn Fn(&Model) -> Result<(), String>,
}

struct Search<'a> {
    inp: &'a LinInput<'a>,
    seen: HashSet<(u64, u64)>,
    best_reason: String,
    best_depth: usize,
    has_limit: bool,
}

impl Search<'_> {
    fn go(&mut self, done: u64, model: &Model, order: &mut Vec<usize>) -> bool {
        let n = self.inp.recs.len();
        if done.count_ones() as usize == n {
            let mut m = model.clone();
            for (op, out) in self.inp.finals {
                if let Err(e) = m.step(self.inp.tables, op, out, 0) {
                    self.note(n, format!("final observation disagrees: {e}"));
                    return false;
                }
            }
            return match (self.inp.final_check)(&m) {
                Ok(()) => true,
                Err(e) => {
                    self.note(n, format!("final state disagrees: {e}"));
                    false
                }
            };
        }
        if !self.seen.insert((done, model_key(model))) {
            return false;
        }
        for i in 0..n {
            if done >> i & 1 == 1 {
                continue;
            }
            let x = &self.inp.recs[i];
            // real-time order: every op that responded before x was invoked must be done
            let blocked = (0..n).any(|j| done >> j & 1 == 0 && j != i && self.inp.recs[j].response < x.invoke);
            if blocked {
                continue;
            }
            let mut m = model.clone();
            let r = match (&x.op, &x.out) {
                (Op::Sweep, Out::Two(_, e)) => step_sweep(&mut m, *e),
                (Op::Range { .. }, _) => Ok(()), // judged separately (not an atomic snapshot)
                _ => m.step(self.inp.tables, &x.op, &x.out, x.ts),
            };
            let mut options: Vec<Model> = Vec::new();
            match r {
                Ok(()) => options.push(m),
                Err(e) => {
                    self.note(order.len(), format!("placing T{}#{} {} -> {} after {:?}: {e}", x.thread, x.idx, self.inp.tables.describe(&x.op), x.out.brief(), order));
                }
            }
            if may_be_noop(x, self.inp.recs, self.has_limit) {
                options.push(model.clone());
            }
            for m in options {
                order.push(i);
                if self.go(done | 1 << i, &m, order) {
                    return true;
                }
                order.pop();
            }
        }
        false
    }

    fn note(&mut self, depth: usize, reason: String) {
        if depth >= self.best_depth {
            self.best_depth = depth;
            self.best_reason = reason;
        }
    }
}

/// Ok(order) if some linearization exists; Err(explanation) otherwise.
pub fn linearizable(inp: &LinInput) -> Result<Vec<usize>, String> {
    let mut s = Search {
        inp,
        seen: HashSet::new(),
        best_reason: String::new(),
        best_depth: 0,
        has_limit: inp.init.cfg.max_memory.is_some(),
    };
    let mut order = Vec::new();
    let mut init = inp.init.clone();
    init.lenient_ts = true;
    if s.go(0, &init, &mut order) {
        Ok(order)
    } else {
        Err(format!("no sequential last-writer-wins execution explains the history; deepest attempt failed with: {}", s.best_reason))
    }
}

/// Range scans are not atomic snapshots. For each key in bounds: the candidate states
/// are the state after all modifications completed before the scan began, plus the
/// state after every modification overlapping the scan. A returned pair must be a
/// candidate; a key whose candidates are all "present with the same value" must be
/// returned exactly once; a key absent in all candidates must not appear.
pub fn check_range(tables: &Tables, init: &Model, recs: &[OpRec], r: &OpRec) -> Result<(), String> {
    let (lo, hi, limit) = match r.op {
        Op::Range { lo, hi, limit } => (&tables.bounds[lo as usize], &tables.bounds[hi as usize], limit),
        _ => return Ok(()),
    };
    let pairs = match &r.out {
        Out::Pairs(p) => p,
        other => return Err(format!("C14: range query failed with {}", other.brief())),
    };
    for w in pairs.windows(2) {
        if w[0].0 >= w[1].0 {
            return Err("C14: range result is not in strictly ascending key order (or holds a duplicate)".into());
        }
    }
    if pairs.len() > limit {
        return Err("C14: range result exceeds the limit".into());
    }
    for (k, _) in pairs {
        if k < lo || k > hi {
            return Err(format!("C14: key {} outside the requested bounds", crate::util::show(k)));
        }
    }
    for (ki, key) in tables.keys.iter().enumerate() {
        if key < lo || key > hi || key.is_empty() {
            continue;
        }
        // Candidate states of the key while the scan ran: the initial state and the state
        // installed by every accepted modification invoked before the scan returned,
        // except states that were certainly superseded before the scan began (an
        // accepted modification with a larger timestamp had already completed).
        let mods: Vec<&OpRec> = recs.iter().filter(|w| key_of(&w.op) == Some(ki as u8) && accepted_modification(w)).collect();
        let mut states: Vec<(u64, Option<Vec<u8>>)> = Vec::new();
        let init_state = init.map.get(key).filter(|g| !init.expired(g));
        states.push((init.map.get(key).map_or(0, |g| g.ts), init_state.map(|g| g.value.clone())));
        let mut wildcard = recs.iter().any(|w| matches!(w.op, Op::Sweep) && accepted_modification(w));
        // a generation written with a TTL whose expiry instant already lies in the past (the
        // virtual clock stands still during a schedule) is invisible to a scan, like an absent key
        let visible = |w: &OpRec, ttl: u64, v: Vec<u8>| -> Option<Vec<u8>> {
            let dead = init.cfg.ttl && ttl > 0 && init.now > eff_ts(w).saturating_add(ttl.saturating_mul(crate::sut::SEC));
            if dead {
                None
            } else {
                Some(v)
            }
        };
        for w in mods.iter().filter(|w| w.invoke < r.response) {
            match (&w.op, &w.out) {
                (Op::Insert { v, ttl, .. }, _) => states.push((eff_ts(w), visible(w, *ttl, tables.values[*v as usize].clone()))),
                (Op::Ifa { v, .. }, _) => states.push((eff_ts(w), Some(tables.values[*v as usize].clone()))),
                (Op::Cas { new, ttl, .. }, _) => states.push((eff_ts(w), visible(w, *ttl, tables.values[*new as usize].clone()))),
                (Op::Incr { ttl, .. }, Out::Int(n)) => states.push((eff_ts(w), visible(w, *ttl, n.to_le_bytes().to_vec()))),
                (Op::Delete { .. }, _) => states.push((eff_ts(w), None)),
                _ => wildcard = true, // TTL-only rewrites, patches: not modelled here
            }
        }
        if wildcard {
            continue;
        }
        let done_before: Vec<u64> = mods.iter().filter(|w| w.response < r.invoke).map(|w| eff_ts(w)).collect();
        let candidates: Vec<Option<Vec<u8>>> =
            states.iter().filter(|(ts, _)| !done_before.iter().any(|d| d > ts)).map(|(_, v)| v.clone()).collect();
        let got: Vec<&Vec<u8>> = pairs.iter().filter(|(k, _)| k == key).map(|(_, v)| v).collect();
        match got.len() {
            0 => {
                let must_be_present = candidates.iter().all(|c| c.is_some());
                // only complain when the limit cannot explain the absence
                if must_be_present && pairs.len() < limit {
                    return Err(format!(
                        "C14: key {} was present during the whole scan but is missing from the result",
                        crate::util::show(key)
                    ));
                }
            }
            1 => {
                if !candidates.iter().any(|c| c.as_ref() == Some(got[0])) {
                    return Err(format!(
                        "C14: scan returned {}={} which the key never held during the scan (candidates {:?})",
                        crate::util::show(key),
                        crate::util::show(got[0]),
                        candidates.iter().map(|c| c.as_ref().map(|v| crate::util::show(v))).collect::<Vec<_>>()
                    ));
                }
            }
            _ => return Err(format!("C14: key {} returned more than once", crate::util::show(key))),
        }
    }
    Ok(())
}
