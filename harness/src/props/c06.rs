//! C06 — complete reachable state graph of the real `FreeSpaceManager` on a device
//! of D data blocks, against a bitmap reference allocator.

use crate::util::{par_for_each, Report};
use feoxdb::storage::free_space::FreeSpaceManager;
use serde_json::json;
use std::collections::HashMap;
use std::sync::atomic::{AtomicBool, AtomicU64, Ordering};
use std::sync::Mutex;

const BLOCK: u64 = 4096;
const START: u64 = 16;

#[derive(Clone, Copy, Debug, PartialEq, Eq, Hash)]
enum Call {
    Alloc(u64),
    Release(u64, u64),
}

fn calls(d: u64) -> Vec<Call> {
    let mut v = Vec::new();
    for n in 0..=d + 1 {
        v.push(Call::Alloc(n));
    }
    v.push(Call::Alloc(u64::MAX));
    for s in START - 2..=START + d + 1 {
        for c in 0..=d + 2 {
            v.push(Call::Release(s, c));
        }
        v.push(Call::Release(s, u64::MAX));
        v.push(Call::Release(s, u64::MAX - s + 1));
        v.push(Call::Release(s, u64::MAX - s));
    }
    v.push(Call::Release(0, 1));
    v.push(Call::Release(u64::MAX, 1));
    v.push(Call::Release(u64::MAX - 1, 2));
    // arguments whose low bits look like a small, plausible request while a high bit is set (width of an
    // index key, of the device limit, of a sign bit): a length or start that is truncated somewhere
    // inside the manager turns into a valid-looking one
    for k in [16u32, 28, 31, 32, 33, 40, 48, 56, 63] {
        for j in 0..=d.min(3) {
            v.push(Call::Alloc((1u64 << k) + j));
            v.push(Call::Release(START, (1u64 << k) + j));
            v.push(Call::Release(START + j, 1u64 << k));
            v.push(Call::Release((1u64 << k) + START + j, 1));
        }
    }
    v.push(Call::Alloc(u64::MAX - 1));
    v
}

/// bit i set = data block (16 + i) is free
type Bits = u32;

fn runs_of(bits: Bits, d: u64) -> Vec<(u64, u64)> {
    let mut v = Vec::new();
    let mut i = 0;
    while i < d {
        if bits >> i & 1 == 1 {
            let s = i;
            while i < d && bits >> i & 1 == 1 {
                i += 1;
            }
            v.push((START + s, i - s));
        } else {
            i += 1;
        }
    }
    v
}

fn mask(start_rel: u64, len: u64) -> Bits {
    (((1u64 << len) - 1) << start_rel) as Bits
}

fn build(d: u64, init_full: bool, hist: &[Call]) -> FreeSpaceManager {
    let mut m = FreeSpaceManager::new();
    let size = (START + d) * BLOCK;
    if init_full {
        m.initialize(size).expect("initialize");
    } else {
        m.set_device_size(size);
    }
    for c in hist {
        match *c {
            Call::Alloc(n) => {
                let _ = m.allocate_sectors(n);
            }
            Call::Release(s, c) => {
                let _ = m.release_sectors(s, c);
            }
        }
    }
    m
}

fn observe(m: &FreeSpaceManager) -> (Vec<(u64, u64)>, Vec<(u64, u64)>, u64, usize, u64, u32) {
    (
        m.verif_runs(),
        m.verif_runs_by_size(),
        m.get_total_free(),
        m.get_free_chunks_count(),
        m.get_largest_free_chunk(),
        m.get_fragmentation(),
    )
}

/// Check the getters against the bitmap. Returns an error text on mismatch.
fn check_state(m: &FreeSpaceManager, bits: Bits, d: u64) -> Result<(), String> {
    let want = runs_of(bits, d);
    let (runs, by_size, total, chunks, largest, frag) = observe(m);
    if runs != want {
        return Err(format!("free runs are {runs:?} but the true free set, merged, is {want:?}"));
    }
    if by_size != want {
        return Err(format!("size index holds {by_size:?} but the true free set, merged, is {want:?}"));
    }
    let t: u64 = want.iter().map(|r| r.1).sum::<u64>() * BLOCK;
    if total != t {
        return Err(format!("total free reported {total}, true {t}"));
    }
    if chunks != want.len() {
        return Err(format!("run count reported {chunks}, true {}", want.len()));
    }
    let l = want.iter().map(|r| r.1).max().unwrap_or(0) * BLOCK;
    if largest != l {
        return Err(format!("largest run reported {largest}, true {l}"));
    }
    if frag > 100 {
        return Err(format!("fragmentation {frag}% out of range"));
    }
    if want.len() <= 1 && frag != 0 {
        return Err(format!("fragmentation reported {frag}% although the free set is {} run", want.len()));
    }
    Ok(())
}

/// Apply one call to the real object and the bitmap; returns the successor bitmap.
fn step(m: &mut FreeSpaceManager, bits: Bits, d: u64, call: Call) -> Result<Bits, String> {
    let total_blocks = START + d;
    match call {
        Call::Alloc(n) => {
            let fits = n >= 1 && runs_of(bits, d).iter().any(|r| r.1 >= n);
            let r = std::panic::catch_unwind(std::panic::AssertUnwindSafe(|| m.allocate_sectors(n)));
            let r = r.map_err(|_| format!("allocate({n}) panicked"))?;
            match r {
                Ok(start) => {
                    if !fits {
                        return Err(format!("allocate({n}) returned {start} although no free run of that length exists"));
                    }
                    if start < START || start.checked_add(n).is_none_or(|e| e > total_blocks) {
                        return Err(format!("allocate({n}) returned out-of-bounds run {start}+{n}"));
                    }
                    let mk = mask(start - START, n);
                    if bits & mk != mk {
                        return Err(format!("allocate({n}) returned {start}+{n}, which overlaps an outstanding allocation"));
                    }
                    Ok(bits & !mk)
                }
                Err(e) => {
                    if fits {
                        return Err(format!("allocate({n}) failed with {e:?} although a free run of {n} exists"));
                    }
                    Ok(bits)
                }
            }
        }
        Call::Release(s, c) => {
            let in_bounds = c >= 1 && s >= START && s.checked_add(c).is_some_and(|e| e <= total_blocks);
            let valid = in_bounds && bits & mask(s - START, c) == 0;
            let r = std::panic::catch_unwind(std::panic::AssertUnwindSafe(|| m.release_sectors(s, c)));
            let r = r.map_err(|_| format!("release({s},{c}) panicked"))?;
            match r {
                Ok(()) => {
                    if !valid {
                        return Err(format!(
                            "release({s},{c}) was accepted although the range is {}",
                            if in_bounds { "(partly) free already" } else { "out of bounds / reserved / empty" }
                        ));
                    }
                    Ok(bits | mask(s - START, c))
                }
                Err(e) => {
                    if valid {
                        return Err(format!("release({s},{c}) of an allocated in-bounds range was rejected: {e:?}"));
                    }
                    Ok(bits)
                }
            }
        }
    }
}

pub fn run(tier: &str, report: &mut Report) {
    let sizes: Vec<u64> = if tier == "thorough" { vec![3, 6, 9, 12, 14, 16] } else { vec![3, 6, 9, 12] };
    let threads = crate::util::worker_threads();
    let mut exhaustive = true;
    for &d in &sizes {
        for init_full in [true, false] {
            let all_calls = calls(d);
            // BFS over bitmap states; each state remembers the shortest history reaching it.
            let initial: Bits = if init_full { mask(0, d) } else { 0 };
            let mut seen: HashMap<Bits, Vec<Call>> = HashMap::new();
            seen.insert(initial, Vec::new());
            {
                let m = build(d, init_full, &[]);
                if let Err(e) = check_state(&m, initial, d) {
                    report.violation(
                        format!("alloc|d={d}|init={init_full}|initial|{e}"),
                        format!("initial state: {e}"),
                        json!({"engine":"c06","d":d,"init_full":init_full,"history":[]}),
                    );
                }
            }
            let mut level = vec![initial];
            // differential oracle without an expected value: a reported figure "of the true free set" is a
            // function of that set, so the same free set reached by two histories must report the same
            // fragmentation figure (a figure that is refreshed on some paths only is caught here)
            let frag_of: Mutex<HashMap<Bits, (u32, Vec<Call>)>> = Mutex::new(HashMap::new());
            frag_of.lock().unwrap().insert(initial, (build(d, init_full, &[]).get_fragmentation(), Vec::new()));
            let transitions = AtomicU64::new(0);
            let stop = AtomicBool::new(false);
            while !level.is_empty() {
                let found: Mutex<Vec<(Bits, Vec<Call>)>> = Mutex::new(Vec::new());
                let bad: Mutex<Vec<(Vec<Call>, String)>> = Mutex::new(Vec::new());
                let seen_ref = &seen;
                par_for_each(level.clone(), threads, &stop, |_, bits| {
                    let hist = &seen_ref[&bits];
                    for &call in &all_calls {
                        let mut m = build(d, init_full, hist);
                        transitions.fetch_add(1, Ordering::Relaxed);
                        let mut h = hist.clone();
                        h.push(call);
                        match step(&mut m, bits, d, call) {
                            Err(e) => {
                                bad.lock().unwrap().push((h, e));
                            }
                            Ok(next) => {
                                let frag_clash = {
                                    let f = m.get_fragmentation();
                                    let mut g = frag_of.lock().unwrap();
                                    match g.get(&next) {
                                        Some((f0, h0)) if *f0 != f => Some(format!(
                                            "fragmentation reported {f}% for the free set {:?}, but {f0}% for the same free set after {h0:?}: the figure is not that of the true free set",
                                            runs_of(next, d)
                                        )),
                                        Some(_) => None,
                                        None => {
                                            g.insert(next, (f, h.clone()));
                                            None
                                        }
                                    }
                                };
                                if let Err(e) = check_state(&m, next, d) {
                                    bad.lock().unwrap().push((h, format!("after {call:?}: {e}")));
                                } else if let Some(e) = frag_clash {
                                    bad.lock().unwrap().push((h, format!("after {call:?}: {e}")));
                                } else if next != bits && !seen_ref.contains_key(&next) {
                                    found.lock().unwrap().push((next, h));
                                }
                            }
                        }
                    }
                });
                let mut bad = bad.into_inner().unwrap();
                bad.sort_by_key(|(h, _)| h.len());
                for (h, e) in bad.into_iter().take(6) {
                    report.violation(
                        format!("alloc|d={d}|init={init_full}|{:?}|{}", h.last().unwrap(), e.chars().take(60).collect::<String>()),
                        format!("device of {d} data blocks, initial state {}: after {:?}\n{e}", if init_full { "all free" } else { "nothing free (recovery)" }, h),
                        json!({"engine":"c06","d":d,"init_full":init_full,"history":format!("{h:?}")}),
                    );
                }
                let mut next_level = Vec::new();
                let mut found = found.into_inner().unwrap();
                found.sort_by(|a, b| (a.1.len(), a.0).cmp(&(b.1.len(), b.0)));
                for (bits, h) in found {
                    if !seen.contains_key(&bits) {
                        seen.insert(bits, h);
                        next_level.push(bits);
                    }
                }
                level = next_level;
                if !report.violations.is_empty() {
                    exhaustive = false;
                    break;
                }
            }
            let n_states = seen.len() as u64;
            report.add("states", n_states);
            report.add("transitions", transitions.load(Ordering::Relaxed));
            report.add("traces_validated_against_impl", transitions.load(Ordering::Relaxed));
            let expected_states = if init_full { 1u64 << d } else { 1u64 << d };
            report.set(
                &format!("graph_d{d}_{}", if init_full { "initialized" } else { "recovery" }),
                json!({"states": n_states, "all_bitmaps": expected_states, "calls_per_state": all_calls.len()}),
            );
            if let Some((bits, h)) = seen.iter().max_by_key(|(_, h)| h.len()) {
                report.sample(json!({"d": d, "free_bitmap": format!("{bits:b}"), "shortest_history": format!("{h:?}")}));
            }
        }
    }
    report.set("exhaustive", exhaustive);
    report.set(
        "explanation",
        "complete reachable state graph of the real FreeSpaceManager for each device size and both initial states; \
         every allocate(n) and release(s,c) argument incl. zero, out-of-bounds, reserved, overlapping and overflowing ones; \
         bitmap reference decides acceptance, overlap and the merged-run statistics after every call",
    );
    report.assumptions.push("the property's 'randomly beyond' clause is not attempted (sampling is outside the technique)".into());
}
