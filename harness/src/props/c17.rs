//! C17 — IMG: exhaustive *structured* corruption of small valid device images.
//! Every image is opened by the real store in an isolated child process (a crash of
//! the child is a finding, not a crash of the checker).

use crate::layoutref::{self as l, Rec};
use crate::session::Session;
use crate::suites::big_value;
use crate::sut::{Cfg, Sut, T0};
use crate::util::{hash128, hash64, scratch_root, show, Report};
use serde_json::json;
use std::io::{BufRead, Write};
use std::panic::{catch_unwind, AssertUnwindSafe};
use std::path::{Path, PathBuf};
use std::sync::atomic::Ordering;

const BLOCK: usize = 4096;

// ------------------------------------------------------------------ base images

fn put_rec(img: &mut [u8], version: u32, at: &mut u64, key: &[u8], value: Vec<u8>, ts: u64, expiry: u64) {
    let r = Rec { key: key.to_vec(), value, timestamp: ts, expiry };
    let bytes = l::encode_record(version, *at, &r);
    l::put(img, *at, &bytes);
    *at += (bytes.len() / BLOCK) as u64;
}

fn store_image(cfg: Cfg, f: impl FnOnce(&feoxdb::FeoxStore)) -> Vec<u8> {
    let mut sut = Sut::create(cfg, "c17base").expect("base store");
    f(sut.store());
    sut.close();
    std::fs::read(sut.path.as_ref().unwrap()).unwrap()
}

pub fn base_images() -> Vec<(String, Vec<u8>)> {
    let mut v = Vec::new();
    // files that are not FeOx devices at all: zero-filled files of several sizes (below,
    // at and above the 256-block read window of the all-zero probe) with one foreign
    // byte somewhere (see `mutations`)
    for blocks in [17usize, 64, 256, 257, 320, 511, 513, 600] {
        v.push((format!("zero-{blocks}"), vec![0u8; blocks * BLOCK]));
    }
    let mut cfg = Cfg::persistent(16);
    cfg.ttl = true;
    v.push((
        "v3-records".into(),
        store_image(cfg, |s| {
            s.insert(b"a", b"alpha").unwrap();
            s.insert(b"b", &big_value(5000, 1)).unwrap();
            s.insert(b"c", &big_value(9000, 2)).unwrap();
            s.insert_with_ttl(b"t", b"ttl", 1000).unwrap();
            s.flush().unwrap();
        }),
    ));
    v.push((
        "v3-markers".into(),
        store_image(cfg, |s| {
            s.insert(b"a", b"alpha").unwrap();
            s.insert(b"b", &big_value(5000, 1)).unwrap();
            s.insert(b"c", b"gamma").unwrap();
            s.flush().unwrap();
            s.delete(b"a").unwrap();
            s.insert(b"b", b"small now").unwrap();
            s.flush().unwrap();
            s.insert(b"d", b"delta").unwrap();
            s.flush().unwrap();
        }),
    ));
    v.push((
        "v3-empty".into(),
        store_image(cfg, |s| {
            s.flush().unwrap();
        }),
    ));
    v.push((
        "v3-maxkey".into(),
        store_image(cfg, |s| {
            s.insert(&vec![b'M'; 4066], b"m").unwrap();
            s.insert(b"z", b"zeta").unwrap();
            s.flush().unwrap();
        }),
    ));
    // an interrupted batch: active journal entry + pending marker + half-written extent
    {
        let mut img = v.iter().find(|(n, _)| n == "v3-records").unwrap().1.clone();
        let total = (img.len() / BLOCK) as u64;
        let free_at = 24u64.min(total - 4);
        let j = l::encode_journal(9, &[(free_at, 2)]);
        l::put(&mut img, 1, &j);
        let mut at = free_at;
        put_rec(&mut img, 3, &mut at, b"pending", big_value(5000, 9), T0 + 5, 0);
        // tail of the pending extent never reached the device
        for b in img[(free_at as usize + 1) * BLOCK..(free_at as usize + 2) * BLOCK].iter_mut() {
            *b = 0;
        }
        l::put(&mut img, free_at + 2, &l::encode_marker(free_at + 2, 1, 0));
        v.push(("v3-active-journal".into(), img));
    }
    // legacy devices written by the independent encoder
    for version in [1u32, 2] {
        let total = 32u64;
        let mut img = l::empty_device(version, total, T0 / 1_000_000_000);
        let mut at = 16u64;
        put_rec(&mut img, version, &mut at, b"a", b"alpha".to_vec(), 100, 0);
        put_rec(&mut img, version, &mut at, b"dup", b"old".to_vec(), 200, 0);
        put_rec(&mut img, version, &mut at, b"big", big_value(5000, 3), 150, 0);
        put_rec(&mut img, version, &mut at, b"dup", b"new".to_vec(), 300, 0);
        l::put(&mut img, at, &l::encode_marker(at, 2, 1));
        l::put(&mut img, at + 1, &l::encode_marker(at + 1, 1, 1));
        at += 2;
        put_rec(&mut img, version, &mut at, b"z", b"zeta".to_vec(), 400, if version == 2 { T0 + 1000 } else { 0 });
        v.push((format!("v{version}-legacy"), img.clone()));
        if version == 2 {
            // an ambiguous legacy marker in front of a multi-block continuation
            l::put(&mut img, at, &l::encode_legacy_marker());
            v.push(("v2-legacy-ambiguous".into(), img));
        }
    }
    v
}

// ------------------------------------------------------------------ mutations

#[derive(Clone, Debug)]
pub enum Mutation {
    None,
    Flip { off: usize, bit: u8 },
    Set { off: usize, width: u8, val: u64 },
    Swap { i: usize, j: usize },
    Copy { from: usize, to: usize },
    ZeroBlock { i: usize },
    Resize { len: u64 },
    ForgeMeta { copy: u8, field: u8, val: u64 },
    ForgeJournal { slot: u8, version: u32, generation: u64, state: u32, count: u32, first: (u32, u32), fix_checksum: bool },
    ForgeRecord { block: usize, field: u8, val: u64 },
    ForgeMarker { block: usize, remaining: u64, state: u8 },
}

fn nonzero_blocks(img: &[u8]) -> Vec<usize> {
    (0..img.len() / BLOCK).filter(|i| img[i * BLOCK..(i + 1) * BLOCK].iter().any(|b| *b != 0)).collect()
}

fn boundary_values(total_blocks: u64) -> Vec<u64> {
    let mut v = vec![
        0,
        1,
        2,
        15,
        16,
        17,
        255,
        256,
        4065,
        4066,
        4067,
        4095,
        4096,
        4097,
        65535,
        65536,
        total_blocks - 1,
        total_blocks,
        total_blocks + 1,
        total_blocks * 4096,
        4 * 1024 * 1024,
        4 * 1024 * 1024 + 1,
        u32::MAX as u64,
        1 << 32,
        1 << 40,
        (1 << 40) + 4096,
        1 << 63,
        u64::MAX - 1,
        u64::MAX,
    ];
    v.sort();
    v.dedup();
    v
}

pub fn mutations(img: &[u8], thorough: bool) -> Vec<Mutation> {
    let mut m = vec![Mutation::None];
    let nz = nonzero_blocks(img);
    let total_blocks = (img.len() / BLOCK) as u64;
    if nz.is_empty() {
        // a zero-filled file: one foreign byte at the first / last position of every block
        for b in 0..total_blocks as usize {
            for off in [0usize, BLOCK - 1] {
                m.push(Mutation::Set { off: b * BLOCK + off, width: 1, val: 0xA5 });
            }
        }
        return m;
    }
    // every single bit of the first 64 bytes of every non-zero block, of the whole
    // encoded metadata (136 bytes) and of the journal entry area heads
    for &b in &nz {
        let span = if b == 0 || b == 7 { 136 } else { 64 };
        for off in 0..span {
            for bit in 0..8 {
                m.push(Mutation::Flip { off: b * BLOCK + off, bit });
            }
        }
    }
    // boundary values in every 2/4/8-byte window of the first 48 bytes of every non-zero block
    let vals = boundary_values(total_blocks);
    for &b in &nz {
        for off in (0..48).step_by(2) {
            for &v in &vals {
                if v <= u16::MAX as u64 {
                    m.push(Mutation::Set { off: b * BLOCK + off, width: 2, val: v });
                }
            }
        }
        for off in (0..48).step_by(4) {
            for &v in &vals {
                if v <= u32::MAX as u64 && (thorough || v > u16::MAX as u64 || off % 8 == 0) {
                    m.push(Mutation::Set { off: b * BLOCK + off, width: 4, val: v });
                }
            }
        }
        for off in (0..48).step_by(if thorough { 2 } else { 8 }) {
            for &v in &vals {
                m.push(Mutation::Set { off: b * BLOCK + off, width: 8, val: v });
            }
        }
    }
    // every ordered pair of non-zero blocks swapped / duplicated; every block zeroed
    for &i in &nz {
        m.push(Mutation::ZeroBlock { i });
        for &j in &nz {
            if i < j {
                m.push(Mutation::Swap { i, j });
            }
            if i != j {
                m.push(Mutation::Copy { from: i, to: j });
            }
        }
        // duplicate into the first free block and into the last block
        if let Some(free) = (16..total_blocks as usize).find(|x| !nz.contains(x)) {
            m.push(Mutation::Copy { from: i, to: free });
        }
        m.push(Mutation::Copy { from: i, to: total_blocks as usize - 1 });
    }
    // file size classes
    for len in [
        1u64,
        4095,
        4096,
        16 * 4096 - 1,
        16 * 4096,
        16 * 4096 + 1,
        17 * 4096 - 1,
        17 * 4096,
        17 * 4096 + 1,
        img.len() as u64 - 4096,
        img.len() as u64 - 1,
        img.len() as u64 + 1,
        img.len() as u64 + 4096,
        img.len() as u64 * 2,
    ] {
        m.push(Mutation::Resize { len });
    }
    // forged but internally consistent structures (checksums / tokens recomputed)
    for copy in 0..3u8 {
        for field in 0..8u8 {
            for &v in &vals {
                m.push(Mutation::ForgeMeta { copy, field, val: v });
            }
        }
    }
    for slot in 0..2u8 {
        for version in [1u32, 2, 3] {
            for generation in [0u64, 1, 1000, u64::MAX] {
                for state in [0u32, 1, 2] {
                    for count in [0u32, 1, 2, 1023, 1024, 1025, 1531, 1532, 1 << 20, u32::MAX] {
                        for first in [(16u32, 1u32), (15, 1), (16, 0), (total_blocks as u32 - 1, 1), (total_blocks as u32 - 1, 2), (total_blocks as u32, 1), (u32::MAX, 1), (16, u32::MAX)] {
                            for fix in [true, false] {
                                if !thorough && !fix && (generation != 1000 || version != 2) {
                                    continue;
                                }
                                m.push(Mutation::ForgeJournal { slot, version, generation, state, count, first, fix_checksum: fix });
                            }
                        }
                    }
                }
            }
        }
    }
    for &b in nz.iter().filter(|b| **b >= 16) {
        let blk = &img[b * BLOCK..(b + 1) * BLOCK];
        if blk[0] == 0xCD && blk[1] == 0xAB {
            for field in 0..4u8 {
                for &v in &vals {
                    m.push(Mutation::ForgeRecord { block: b, field, val: v });
                }
            }
        }
        for remaining in [0u64, 1, 2, total_blocks - b as u64, total_blocks - b as u64 + 1, u64::MAX] {
            for state in [0u8, 1, 2, 255] {
                m.push(Mutation::ForgeMarker { block: b, remaining, state });
            }
        }
    }
    m
}

fn meta_version(img: &[u8]) -> u32 {
    l::current_meta(img).map(|(m, _)| m.version).unwrap_or(3)
}

pub fn apply(img: &mut Vec<u8>, m: &Mutation) {
    match *m {
        Mutation::None => {}
        Mutation::Flip { off, bit } => img[off] ^= 1 << bit,
        Mutation::Set { off, width, val } => {
            let bytes = val.to_le_bytes();
            img[off..off + width as usize].copy_from_slice(&bytes[..width as usize]);
        }
        Mutation::Swap { i, j } => {
            for k in 0..BLOCK {
                img.swap(i * BLOCK + k, j * BLOCK + k);
            }
        }
        Mutation::Copy { from, to } => {
            let src = img[from * BLOCK..(from + 1) * BLOCK].to_vec();
            img[to * BLOCK..(to + 1) * BLOCK].copy_from_slice(&src);
        }
        Mutation::ZeroBlock { i } => img[i * BLOCK..(i + 1) * BLOCK].fill(0),
        Mutation::Resize { len } => img.resize(len as usize, 0),
        Mutation::ForgeMeta { copy, field, val } => {
            for (c, blk) in [(0u8, l::META_PRIMARY), (1, l::META_BACKUP)] {
                if copy != 2 && copy != c {
                    continue;
                }
                let Some(mut meta) = l::block(img, blk).and_then(l::decode_meta) else { continue };
                match field {
                    0 => meta.version = val as u32,
                    1 => meta.total_records = val,
                    2 => meta.total_size = val,
                    3 => meta.device_size = val,
                    4 => meta.block_size = val as u32,
                    5 => meta.fragmentation = val as u32,
                    6 => meta.generation = val,
                    _ => meta.creation_time = val,
                }
                let enc = l::encode_meta(&meta);
                l::put(img, blk, &enc);
            }
        }
        Mutation::ForgeJournal { slot, version, generation, state, count, first, fix_checksum } => {
            let mut d = vec![0u8; 3 * BLOCK];
            d[0..8].copy_from_slice(b"\0FEOXAJ1");
            d[8..12].copy_from_slice(&version.to_le_bytes());
            d[16..24].copy_from_slice(&generation.to_le_bytes());
            d[24..28].copy_from_slice(&state.to_le_bytes());
            d[28..32].copy_from_slice(&count.to_le_bytes());
            let n = (count as usize).min((3 * BLOCK - 40) / 8);
            for i in 0..n {
                let o = 40 + i * 8;
                let (s, c) = if i == 0 { first } else { (first.0.wrapping_add(i as u32 * 2), 1) };
                d[o..o + 4].copy_from_slice(&s.to_le_bytes());
                d[o + 4..o + 8].copy_from_slice(&c.to_le_bytes());
            }
            // checksum over the compact image (version 2) or the whole slot (version 1)
            let len = if version == 1 { d.len() } else { ((40 + count as usize * 8).div_ceil(BLOCK) * BLOCK).clamp(BLOCK, d.len()) };
            let c = l::crc32c(&[&d[..12], &[0; 4], &d[16..32], &[0; 4], &d[36..len]]);
            let c = if fix_checksum { c } else { c ^ 0x10 };
            d[12..16].copy_from_slice(&c.to_le_bytes());
            d[32..36].copy_from_slice(&(!c).to_le_bytes());
            l::put(img, 1 + slot as u64 * 3, &d);
        }
        Mutation::ForgeRecord { block, field, val } => {
            let version = meta_version(img);
            let total = img.len() / BLOCK;
            let key_len = u16::from_le_bytes([img[block * BLOCK + 4], img[block * BLOCK + 5]]) as usize;
            let o = block * BLOCK;
            match field {
                0 => img[o + 4..o + 6].copy_from_slice(&(val as u16).to_le_bytes()),
                1 if 6 + key_len + 8 <= BLOCK => img[o + 6 + key_len..o + 14 + key_len].copy_from_slice(&val.to_le_bytes()),
                2 if 14 + key_len + 8 <= BLOCK => img[o + 14 + key_len..o + 22 + key_len].copy_from_slice(&val.to_le_bytes()),
                3 if version >= 2 && 22 + key_len + 8 <= BLOCK => img[o + 22 + key_len..o + 30 + key_len].copy_from_slice(&val.to_le_bytes()),
                _ => {}
            }
            if version >= 3 {
                // re-token over the extent the forged header now claims (clamped to the device)
                let kl = u16::from_le_bytes([img[o + 4], img[o + 5]]) as usize;
                let vl = if 6 + kl + 8 <= BLOCK { u64::from_le_bytes(img[o + 6 + kl..o + 14 + kl].try_into().unwrap()) } else { 0 };
                let blocks = (l::header_len(version, kl) as u64).saturating_add(vl).div_ceil(BLOCK as u64).clamp(1, (total - block) as u64) as usize;
                let t = l::record_token(block as u64, &img[o..o + blocks * BLOCK]);
                img[o + 2..o + 4].copy_from_slice(&t.to_le_bytes());
            }
        }
        Mutation::ForgeMarker { block, remaining, state } => {
            let b = l::encode_marker(block as u64, remaining, state);
            l::put(img, block as u64, &b);
        }
    }
}

// ------------------------------------------------------------------ the probe (runs in the child)

/// Returns a verdict line: "ok ..." or "BAD ...".
pub fn probe(img: &[u8], path: &Path) -> String {
    std::fs::write(path, img).expect("write image");
    let before = hash128(img);
    let total_blocks = (img.len() / BLOCK) as u64;
    let mut cfg = Cfg::persistent(total_blocks.saturating_sub(16));
    cfg.ttl = true;
    let sess = Session::new();
    sess.clock.store(T0, Ordering::SeqCst);
    sess.set_flag(crate::session::F_NO_URING, true);
    sess.install();
    let p = path.to_str().unwrap().to_string();
    let opened = catch_unwind(AssertUnwindSafe(|| {
        feoxdb::FeoxStore::builder().hash_bits(4).no_memory_limit().enable_ttl(true).device_path(p.clone()).build()
    }));
    let store = match opened {
        Err(p) => return format!("BAD open panicked: {}", crate::sut::panic_text(p)),
        Ok(Err(e)) => {
            let name = crate::sut::err_name(&e);
            let after = std::fs::read(path).map(|b| hash128(&b)).unwrap_or(0);
            // The reason is established independently of the error code: an illegal
            // size, or no valid metadata copy (which includes a missing signature).
            let size_reason = img.len() <= 16 * BLOCK || img.len() % BLOCK != 0 || img.len() as u64 > (1u64 << 40);
            let metadata_reason = !size_reason && l::current_meta(img).is_none();
            if after != before && (size_reason || metadata_reason) {
                return format!(
                    "BAD open failed with {name} for a {} reason but modified the file",
                    if size_reason { "size" } else { "metadata / signature" }
                );
            }
            // third independent reason: the (valid) metadata records another device size than the file has,
            // and the store says so itself (InvalidDevice is what the size checks return)
            let recorded_size_reason = l::current_meta(img).is_some_and(|(m, _)| m.device_size != img.len() as u64);
            if after != before && recorded_size_reason && name == "InvalidDevice" {
                return "BAD open failed with InvalidDevice on a file whose metadata records a different device size (a size reason) but modified the file".to_string();
            }
            return format!("ok err {name}");
        }
        Ok(Ok(s)) => s,
    };
    // A file without a valid metadata copy is a FeOx device only if it is entirely
    // zero (a fresh device); anything else must have been rejected, not taken over.
    if l::current_meta(img).is_none() && img.iter().any(|b| *b != 0) {
        let _ = catch_unwind(AssertUnwindSafe(|| drop(store)));
        let after = std::fs::read(path).map(|b| hash128(&b)).unwrap_or(0);
        return format!(
            "BAD a file that is not recognisably a FeOx device (no valid metadata copy, not zero-filled) was opened as a store{}",
            if after != before { " and modified" } else { "" }
        );
    }
    let r = catch_unwind(AssertUnwindSafe(|| {
        let d = store.verif_dump();
        for rec in &d.records {
            let _ = store.get(&rec.key);
            let _ = store.get_size(&rec.key);
        }
        let _ = store.range_query(b"", &[0xff; 8], 1000);
        let _ = store.len();
        let _ = store.insert(b"probe-new", b"value");
        if let Some(rec) = d.records.first() {
            let _ = store.insert(&rec.key, b"probe-update");
            let _ = store.delete(&rec.key);
        }
        let _ = store.atomic_increment(b"probe-counter", 1);
        let _ = store.flush();
        let _ = store.get(b"probe-new");
        d.records.len()
    }));
    let n = match r {
        Ok(n) => n,
        Err(p) => return format!("BAD a call on the opened store panicked: {}", crate::sut::panic_text(p)),
    };
    match catch_unwind(AssertUnwindSafe(|| drop(store))) {
        Ok(()) => format!("ok open {n}"),
        Err(p) => format!("BAD drop panicked: {}", crate::sut::panic_text(p)),
    }
}

/// Child entry: `fv c17-worker <dir> <base index> <lo> <hi> <thorough>`; prints one line per image.
pub fn worker(args: &[String]) -> i32 {
    let dir = PathBuf::from(&args[0]);
    let base: usize = args[1].parse().unwrap();
    let lo: usize = args[2].parse().unwrap();
    let hi: usize = args[3].parse().unwrap();
    let thorough = args[4] == "1";
    let img = std::fs::read(dir.join(format!("base{base}.img"))).expect("base image");
    let muts = mutations(&img, thorough);
    let scratch = dir.join(format!("w{}-{}.feox", base, lo));
    let out = std::io::stdout();
    // watchdog: an open or a call that hangs is a finding
    let current = std::sync::Arc::new(std::sync::atomic::AtomicUsize::new(usize::MAX));
    let started = std::sync::Arc::new(std::sync::Mutex::new(std::time::Instant::now()));
    {
        let current = current.clone();
        let started = started.clone();
        std::thread::spawn(move || loop {
            std::thread::sleep(std::time::Duration::from_millis(500));
            if started.lock().unwrap().elapsed().as_secs() > 20 {
                println!("{} BAD hang: no result within 20 s", current.load(Ordering::SeqCst));
                std::process::exit(3);
            }
        });
    }
    for i in lo..hi.min(muts.len()) {
        current.store(i, Ordering::SeqCst);
        *started.lock().unwrap() = std::time::Instant::now();
        // a panic here is the harness' own (store calls are individually guarded in `probe`)
        let verdict = match catch_unwind(AssertUnwindSafe(|| {
            let mut m = img.clone();
            apply(&mut m, &muts[i]);
            probe(&m, &scratch)
        })) {
            Ok(v) => v,
            Err(p) => format!("MACH harness panic: {}", crate::sut::panic_text(p)),
        };
        let mut o = out.lock();
        let _ = writeln!(o, "{i} {verdict}");
        let _ = o.flush();
    }
    let _ = std::fs::remove_file(&scratch);
    0
}

pub fn check(tier: &str, budget_s: f64, report: &mut Report) {
    let thorough = tier == "thorough";
    let dir = scratch_root().join("c17");
    let _ = std::fs::create_dir_all(&dir);
    let bases = base_images();
    let exe = std::env::current_exe().expect("own path");
    let threads = crate::util::worker_threads();
    let dl = crate::util::Deadline::new(budget_s);
    let mut total = 0u64;
    let mut opened = 0u64;
    let mut rejected = std::collections::BTreeMap::<String, u64>::new();
    let mut exhaustive = true;
    let mut per_base = serde_json::Map::new();
    for (bi, (name, img)) in bases.iter().enumerate() {
        std::fs::write(dir.join(format!("base{bi}.img")), img).unwrap();
        let muts = mutations(img, thorough);
        let n = muts.len();
        let chunk = n.div_ceil(threads).max(1);
        let results: std::sync::Mutex<Vec<(usize, String)>> = std::sync::Mutex::new(Vec::new());
        let crashed: std::sync::Mutex<Vec<(usize, usize, String)>> = std::sync::Mutex::new(Vec::new());
        let run_range = |lo: usize, hi: usize| -> (Vec<(usize, String)>, Option<String>) {
            let out = crate::util::child_command(&exe)
                .args(["c17-worker", dir.to_str().unwrap(), &bi.to_string(), &lo.to_string(), &hi.to_string(), if thorough { "1" } else { "0" }])
                .stderr(std::process::Stdio::null())
                .output()
                .expect("spawn worker");
            let mut lines = Vec::new();
            for line in out.stdout.lines().map_while(Result::ok) {
                if let Some((i, rest)) = line.split_once(' ') {
                    if let Ok(i) = i.parse::<usize>() {
                        lines.push((i, rest.to_string()));
                    }
                }
            }
            // exit code 3 = our own watchdog (hang, already reported on stdout); a fatal
            // signal / abort = the store took the process down; anything else = machinery
            let abnormal = if out.status.success() {
                None
            } else {
                use std::os::unix::process::ExitStatusExt;
                if out.status.signal().is_some() || out.status.code() == Some(3) || out.status.code() == Some(134) {
                    Some(format!("{:?}", out.status))
                } else {
                    Some(format!("MACHINERY {:?}", out.status))
                }
            };
            (lines, abnormal)
        };
        std::thread::scope(|sc| {
            for t in 0..threads {
                let lo = t * chunk;
                let hi = ((t + 1) * chunk).min(n);
                if lo >= hi {
                    continue;
                }
                let results = &results;
                let crashed = &crashed;
                let run_range = &run_range;
                let dl = &dl;
                sc.spawn(move || {
                    let mut lo = lo;
                    while lo < hi {
                        if dl.expired() {
                            return;
                        }
                        let (lines, abnormal) = run_range(lo, hi);
                        let done = lines.last().map(|l| l.0 + 1).unwrap_or(lo);
                        results.lock().unwrap().extend(lines);
                        match abnormal {
                            None => break,
                            Some(status) => {
                                // the child died on image `done` (or reported a hang on it): record and continue after it
                                crashed.lock().unwrap().push((done, hi, status));
                                lo = done + 1;
                            }
                        }
                    }
                });
            }
        });
        let results = results.into_inner().unwrap();
        let seen: std::collections::HashSet<usize> = results.iter().map(|r| r.0).collect();
        if seen.len() < n {
            exhaustive = false;
        }
        total += seen.len() as u64;
        let mut bad = 0;
        for (i, verdict) in &results {
            if let Some(rest) = verdict.strip_prefix("ok ") {
                if rest.starts_with("open") {
                    opened += 1;
                } else {
                    *rejected.entry(rest.trim_start_matches("err ").to_string()).or_insert(0) += 1;
                }
            } else if let Some(m) = verdict.strip_prefix("MACH ") {
                report.machinery(format!("[{name} mutation #{i}] {m}"));
            } else if bad < 6 {
                bad += 1;
                let head: String = verdict.chars().take(100).collect();
                report.violation(
                    format!("img|{name}|{:?}|{head}", muts[*i]),
                    format!("base image {name}, mutation #{i} {:?}\n{verdict}", muts[*i]),
                    json!({"engine":"c17","base":name,"mutation_index":i,"mutation":format!("{:?}", muts[*i])}),
                );
            }
        }
        for (i, _, status) in crashed.into_inner().unwrap() {
            if results.iter().any(|(j, v)| *j == i && v.starts_with("BAD hang")) {
                continue;
            }
            if status.starts_with("MACHINERY") {
                report.machinery(format!("[{name}] image worker exited abnormally near mutation #{i}: {status}"));
                continue;
            }
            if i < n {
                report.violation(
                    format!("img|{name}|{:?}|process died", muts[i]),
                    format!("base image {name}, mutation #{i} {:?}\nthe process opening this image died abnormally ({status}): abort, signal or allocation failure", muts[i]),
                    json!({"engine":"c17","base":name,"mutation_index":i,"mutation":format!("{:?}", muts[i])}),
                );
            }
        }
        per_base.insert(name.clone(), json!({"mutations": n, "examined": seen.len(), "nonzero_blocks": nonzero_blocks(img).len()}));
        if bi < 3 {
            report.sample(json!({"base": name, "mutation": format!("{:?}", muts[n / 2]), "of": n}));
        }
    }
    let _ = std::fs::remove_dir_all(&dir);
    report.add("evaluations", total);
    let classes = rejected.len() as u64 + 1;
    report.add("distinct_nontrivial", (total.saturating_sub(bases.len() as u64)).max(classes));
    report.set("rule", "one evaluation = one structurally corrupted image (single bit flip in a structure head, boundary value in a header window, block swap/duplication/zeroing, size class, or a forged metadata/journal/record/marker with recomputed checksum or token) opened by the real store in a child process; every evaluation except the unmodified bases is a distinct non-trivial image");
    report.set("opened_and_probed", opened);
    report.set("rejected_by_error", json!(rejected));
    report.set("bases", serde_json::Value::Object(per_base));
    report.set("exhaustive", exhaustive);
    report.assumptions.push("purely random byte patterns are not sampled (outside the technique); the class 'non-zero content without a signature' is covered by construction".into());
    let _ = (hash64(&[b"x"]), show(b"x"));
}
