//! C10 (converse direction): files written by the released format — golden v3 files
//! produced by the pinned commit and v1/v2 files encoded by the independent codec —
//! must open and read back key for key; legacy devices keep their own record format
//! when written to.

use crate::layoutref::{self as l, Rec};
use crate::session::Session;
use crate::sut::{Cfg, Sut, SEC, T0};
use crate::util::{hash64, hex, show, verif_root, Report, TempFile};
use serde_json::{json, Value};
use std::sync::atomic::Ordering;

fn golden_dir() -> std::path::PathBuf {
    verif_root().join("golden")
}

fn session() -> std::sync::Arc<Session> {
    let s = Session::new();
    s.clock.store(T0, Ordering::SeqCst);
    s.set_flag(crate::session::F_NO_URING, true);
    s
}

fn contents_json(records: &[(Vec<u8>, Vec<u8>, u64, u64)]) -> Value {
    Value::Array(
        records
            .iter()
            .map(|(k, v, ts, e)| json!({"key": hex(k), "value_len": v.len(), "value_hash": format!("{:016x}", hash64(&[v])), "ts": ts.to_string(), "expiry": e.to_string()}))
            .collect(),
    )
}

/// Write the golden corpus (run once at the pinned commit; the files are committed).
pub fn generate() -> i32 {
    let dir = golden_dir();
    std::fs::create_dir_all(&dir).unwrap();
    let mut index = serde_json::Map::new();
    // ---- v3 files written by the real store
    for (name, ttl) in [("v3-basic", false), ("v3-ttl", true)] {
        let mut cfg = Cfg::persistent(24);
        cfg.ttl = ttl;
        let mut sut = Sut::create(cfg, "golden").unwrap();
        let st = sut.store().clone();
        let big = crate::suites::big_value(5000, 0x77);
        st.insert(b"a", b"alpha").unwrap();
        st.insert(&vec![b'K'; 255], &big).unwrap();
        st.insert(&vec![b'M'; 4066], b"maxkey").unwrap();
        st.insert_with_timestamp(b"explicit", b"ts", Some(42)).unwrap();
        st.atomic_increment(b"counter", 41).unwrap();
        st.insert(b"gone", b"deleted later").unwrap();
        st.flush().unwrap();
        st.atomic_increment(b"counter", 1).unwrap();
        st.insert(b"a", b"alpha-2").unwrap();
        st.delete(b"gone").unwrap();
        if ttl {
            st.insert_with_ttl(b"session", b"expires", 1000).unwrap();
            st.update_ttl(b"a", 5000).unwrap();
        }
        st.flush().unwrap();
        let d = st.verif_dump();
        let mut recs = Vec::new();
        for r in &d.records {
            recs.push((r.key.clone(), st.get(&r.key).unwrap(), r.timestamp, r.ttl_expiry));
        }
        drop(st);
        sut.close();
        let bytes = std::fs::read(sut.path.as_ref().unwrap()).unwrap();
        std::fs::write(dir.join(format!("{name}.feox")), &bytes).unwrap();
        index.insert(name.to_string(), json!({"format": 3, "ttl": ttl, "blocks": 40, "file_hash": format!("{:016x}", hash64(&[&bytes])), "contents": contents_json(&recs)}));
    }
    // ---- legacy files written by the independent encoder
    for version in [1u32, 2] {
        let total = 40u64;
        let mut img = l::empty_device(version, total, T0 / SEC);
        let mut recs: Vec<(Vec<u8>, Vec<u8>, u64, u64)> = Vec::new();
        let mut at = 16u64;
        let mut put = |img: &mut Vec<u8>, at: &mut u64, key: &[u8], value: Vec<u8>, ts: u64, expiry: u64, live: bool, recs: &mut Vec<(Vec<u8>, Vec<u8>, u64, u64)>| {
            let r = Rec { key: key.to_vec(), value: value.clone(), timestamp: ts, expiry: if version >= 2 { expiry } else { 0 } };
            let bytes = l::encode_record(version, *at, &r);
            l::put(img, *at, &bytes);
            *at += (bytes.len() / l::BLOCK) as u64;
            if live {
                recs.push((key.to_vec(), value, ts, r.expiry));
            }
        };
        put(&mut img, &mut at, b"a", b"alpha".to_vec(), 100, 0, true, &mut recs);
        put(&mut img, &mut at, &vec![b'K'; 255], crate::suites::big_value(5000, 0x78), 101, 0, true, &mut recs);
        // an older and a newer generation of one key: newest timestamp wins
        put(&mut img, &mut at, b"dup", b"old".to_vec(), 200, 0, false, &mut recs);
        at += 1; // a never-used block
        put(&mut img, &mut at, b"dup", b"new".to_vec(), 300, 0, true, &mut recs);
        // a retired two-block extent (token-style markers), then a live record behind it
        l::put(&mut img, at, &l::encode_marker(at, 2, 1));
        l::put(&mut img, at + 1, &l::encode_marker(at + 1, 1, 1));
        at += 2;
        put(&mut img, &mut at, b"ttlkey", b"with expiry".to_vec(), 400, T0 + 5000 * SEC, true, &mut recs);
        let maxk = if version == 1 { 4096 - 22 } else { 4096 - 30 };
        put(&mut img, &mut at, &vec![b'M'; maxk], b"m".to_vec(), 500, 0, true, &mut recs);
        std::fs::write(dir.join(format!("v{version}-legacy.feox")), &img).unwrap();
        recs.sort();
        index.insert(format!("v{version}-legacy"), json!({"format": version, "ttl": false, "blocks": total, "file_hash": format!("{:016x}", hash64(&[&img])), "contents": contents_json(&recs)}));
    }
    // ---- a v3 file written by the independent encoder: boundary cases of the token rule
    {
        let total = 40u64;
        let mut img = l::empty_device(3, total, T0 / SEC);
        let mut recs: Vec<(Vec<u8>, Vec<u8>, u64, u64)> = Vec::new();
        let mut at = 16u64;
        for (key, target, len) in [(&b"fold-zero"[..], 0u16, 40usize), (b"fold-one", 1, 40), (b"fold-ffff", 0xffff, 40), (b"fold-zero-2blocks", 0, 5000)] {
            let value = l::value_with_raw_fold(key, 700 + at, 0, at, len, target);
            let r = Rec { key: key.to_vec(), value: value.clone(), timestamp: 700 + at, expiry: 0 };
            let bytes = l::encode_record(3, at, &r);
            l::put(&mut img, at, &bytes);
            recs.push((key.to_vec(), value, r.timestamp, 0));
            at += (bytes.len() / l::BLOCK) as u64;
        }
        std::fs::write(dir.join("v3-token-boundaries.feox"), &img).unwrap();
        recs.sort();
        index.insert("v3-token-boundaries".into(), json!({"format": 3, "ttl": false, "blocks": total, "file_hash": format!("{:016x}", hash64(&[&img])), "contents": contents_json(&recs)}));
    }
    std::fs::write(dir.join("INDEX.json"), serde_json::to_string_pretty(&Value::Object(index)).unwrap()).unwrap();
    println!("golden corpus written to {}", dir.display());
    0
}

pub fn run(report: &mut Report) {
    let dir = golden_dir();
    let Ok(text) = std::fs::read_to_string(dir.join("INDEX.json")) else {
        report.machinery("golden/INDEX.json missing");
        return;
    };
    let index: Value = serde_json::from_str(&text).unwrap_or_default();
    let mut files = 0u64;
    let mut keys_checked = 0u64;
    for (name, meta) in index.as_object().cloned().unwrap_or_default() {
        let path = dir.join(format!("{name}.feox"));
        let Ok(bytes) = std::fs::read(&path) else {
            report.machinery(format!("golden file {name} missing"));
            continue;
        };
        if format!("{:016x}", hash64(&[&bytes])) != meta["file_hash"].as_str().unwrap_or("") {
            report.machinery(format!("golden file {name} does not match its recorded hash"));
            continue;
        }
        files += 1;
        let format = meta["format"].as_u64().unwrap() as u32;
        let mut cfg = Cfg::persistent(meta["blocks"].as_u64().unwrap() - 16);
        cfg.format = format;
        cfg.ttl = meta["ttl"].as_bool().unwrap_or(false);
        // the independent decoder must agree with the recorded contents first
        let dec = l::decode(&bytes);
        let live = dec.live();
        let want = meta["contents"].as_array().cloned().unwrap_or_default();
        let fail = |report: &mut Report, msg: String| {
            report.violation(format!("golden|{name}|{}", msg.chars().take(100).collect::<String>()), format!("golden file {name}: {msg}"), json!({"engine":"c10-golden","file":name}));
        };
        if live.len() != want.len() {
            report.machinery(format!("independent decoder finds {} live keys in golden {name}, index says {}", live.len(), want.len()));
            continue;
        }
        let tmp = TempFile::new("golden");
        std::fs::write(&tmp.0, &bytes).unwrap();
        let sess = session();
        let mut sut = match Sut::open_existing(cfg, tmp.path(), sess) {
            Ok(s) => s,
            Err(e) => {
                fail(report, format!("C10: a file written by the released format no longer opens: {e:?}"));
                continue;
            }
        };
        let st = sut.store().clone();
        let d = st.verif_dump();
        if d.records.len() != want.len() {
            fail(report, format!("C10: store exposes {} keys, the file holds {}", d.records.len(), want.len()));
        }
        for w in &want {
            let key: Vec<u8> = (0..w["key"].as_str().unwrap().len() / 2).map(|i| u8::from_str_radix(&w["key"].as_str().unwrap()[2 * i..2 * i + 2], 16).unwrap()).collect();
            keys_checked += 1;
            match st.get(&key) {
                Ok(v) => {
                    if format!("{:016x}", hash64(&[&v])) != w["value_hash"].as_str().unwrap() || v.len() as u64 != w["value_len"].as_u64().unwrap() {
                        fail(report, format!("C10: key {} reads back a different value", show(&key)));
                    }
                }
                Err(e) => fail(report, format!("C10: key {} of the golden file is not readable: {e:?}", show(&key))),
            }
            match d.records.iter().find(|r| r.key == key) {
                Some(r) => {
                    if r.timestamp.to_string() != w["ts"].as_str().unwrap() || r.ttl_expiry.to_string() != w["expiry"].as_str().unwrap() {
                        fail(report, format!("C10: key {} recovered with ts {} expiry {}, file says {} / {}", show(&key), r.timestamp, r.ttl_expiry, w["ts"], w["expiry"]));
                    }
                }
                None => fail(report, format!("C10: key {} missing after opening the golden file", show(&key))),
            }
        }
        // writing to a legacy device keeps its record format
        if st.insert(b"written-now", b"fresh").is_ok() && st.flush().is_ok() {
            drop(st);
            sut.close();
            let after = std::fs::read(&tmp.0).unwrap();
            let dec = l::decode(&after);
            match dec.meta.as_ref() {
                Some(m) if m.version == format => {}
                other => fail(report, format!("C10: device format changed from v{format} to {:?} by opening/writing", other.map(|m| m.version))),
            }
            match dec.live().get(b"written-now".as_slice()) {
                Some(r) if r.rec.value == b"fresh" => {}
                _ => fail(report, format!("C10: a record written to the v{format} device is not readable in the v{format} record format")),
            }
            let token_ok = dec.records().find(|(r, _, _, _)| r.key == b"written-now").map(|x| x.3);
            if token_ok == Some(false) {
                fail(report, format!("C10: record written to the v{format} device carries the wrong token for that format"));
            }
        } else {
            fail(report, "C10: cannot write to / flush a device opened from a golden file".into());
        }
        report.sample(json!({"golden_file": name, "format": format, "keys": want.len()}));
    }
    report.add("golden_files_opened", files);
    report.add("golden_keys_checked", keys_checked);
    report.add("transitions", keys_checked);
    report.add("traces_validated_against_impl", files);
}
