//! C04 / C11 supplement: one synthesised device on which recovery has to retire more
//! extents than one allocation-journal record holds (1024), so that its repair runs as
//! several journaled transactions. Among them: an **expired newest generation** of key
//! `k` on a low block and its **older, unexpired generation** on a high block. Every
//! epoch boundary of recovery's own device writes, and a bounded family of in-flight
//! subsets, is a crash point; recovery is restarted on each image and must report the
//! contents the first recovery reported.

use crate::crash::{self, Recovered};
use crate::layoutref::{self as l, Rec};
use crate::session::Session;
use crate::sut::{Cfg, SEC, T0};
use crate::util::{hash128, show, Report, TempFile};
use serde_json::json;
use std::collections::HashSet;
use std::sync::atomic::Ordering;

const ISOLATED: u64 = 1030;

fn session(now: u64, log: bool) -> std::sync::Arc<Session> {
    let s = Session::new();
    s.clock.store(now, Ordering::SeqCst);
    s.set_flag(crate::session::F_NO_URING, true);
    s.set_flag(crate::session::F_FORCE_SYNC, true);
    s.log_enabled.store(log, Ordering::SeqCst);
    s
}

fn brief(r: &Recovered) -> String {
    let interesting: Vec<String> = r
        .keys
        .iter()
        .filter(|(k, _)| !k.starts_with(b"f"))
        .map(|(k, v)| format!("{}={}@{}", show(k), v.value.as_ref().map(|b| show(b)).unwrap_or_else(|e| format!("<{e}>")), v.ts))
        .collect();
    format!("{} keys; other than the fillers: {:?}", r.keys.len(), interesting)
}

/// `torn_slot0`: the journal as a crash inside an earlier write batch left it — slot 0
/// holds a torn (checksum-invalid) ACTIVE record, slot 1 the valid CLEAR before it, so
/// that recovery's own first journal write must go to slot 0 and leave slot 1 alone.
pub fn image(version: u32, torn_slot0: bool) -> (Vec<u8>, u64) {
    let total = 16 + 2 * ISOLATED + 4;
    let mut img = l::empty_device(version, total, T0 / SEC);
    let mut put = |at: u64, key: &[u8], value: &[u8], ts: u64, expiry: u64| {
        let r = Rec { key: key.to_vec(), value: value.to_vec(), timestamp: ts, expiry };
        let bytes = l::encode_record(version, at, &r);
        assert_eq!(bytes.len(), l::BLOCK);
        l::put(&mut img, at, &bytes);
    };
    let expired = T0 + SEC;
    if torn_slot0 {
        // one live key with more than a thousand superseded generations scattered over the
        // device: recovery's *first* journal record is three blocks long
        put(16, b"k", b"newest generation", 50_000, 0);
        put(17, b"f-first", b"filler", 50, 0);
        for i in 0..ISOLATED {
            put(18 + 2 * i, b"k", format!("superseded generation {i}").as_bytes(), 100 + i, 0);
            put(19 + 2 * i, format!("f{i:04}").as_bytes(), b"filler", 50, 0);
        }
    } else {
        // newest generation of k: expired, on the lowest data block
        put(16, b"k", b"newest generation (expired)", 300, expired);
        put(17, b"f-first", b"filler", 50, 0);
        for i in 0..ISOLATED {
            put(18 + 2 * i, format!("e{i:04}").as_bytes(), b"expired", 100, expired);
            put(19 + 2 * i, format!("f{i:04}").as_bytes(), b"filler", 50, 0);
        }
        // older generation of k: no expiry, behind everything else
        put(18 + 2 * ISOLATED, b"k", b"older generation (no expiry)", 200, 0);
    }
    if torn_slot0 {
        let clear = l::encode_journal(6, &[]);
        l::put(&mut img, 4, &clear);
        let mut active = l::encode_journal(7, &[(19 + 2 * ISOLATED, 1)]);
        let n = active.len();
        active[n / 2] ^= 0xff; // the tail of the record never reached the device
        l::put(&mut img, 1, &active);
    }
    (img, total)
}

pub fn run(accept: &[&str], report: &mut Report) {
    run_variant(accept, report, false);
    if report.violations.is_empty() {
        run_variant(accept, report, true);
    }
}

fn run_variant(accept: &[&str], report: &mut Report, torn_slot0: bool) {
    let version = 3u32;
    let (img0, total) = image(version, torn_slot0);
    let mut cfg = Cfg::persistent(total - 16);
    cfg.ttl = true;
    cfg.cache = false;
    let now = T0 + 100 * SEC;
    // ---- the first, uninterrupted recovery (reference) and its device log
    let f0 = TempFile::new("bigrec");
    std::fs::write(&f0.0, &img0).unwrap();
    let s0 = session(now, true);
    let (mut sut0, rec0) = match crash::recover(cfg, f0.path(), s0.clone()) {
        Ok(x) => x,
        Err(e) => {
            report.machinery(format!("big-recovery image does not open: {e}"));
            return;
        }
    };
    sut0.close();
    let log = s0.take_log();
    let as_designed = if torn_slot0 {
        rec0.keys.get(b"k".as_slice()).is_some_and(|r| r.ts == 50_000)
    } else {
        !rec0.keys.contains_key(b"k".as_slice()) && !rec0.keys.keys().any(|k| k.starts_with(b"e"))
    };
    if !as_designed {
        report.machinery(format!("big-recovery reference is not as designed: {}", brief(&rec0)));
        return;
    }
    let eps = crash::epochs(&log);
    let journal_records = eps.iter().flat_map(|e| e.newly_durable.iter().chain(e.inflight.iter())).filter(|u| u.off >= 4096 && u.off < 7 * 4096).count();
    // ---- crash points inside recovery's own writes
    let seen: std::sync::Mutex<HashSet<u128>> = std::sync::Mutex::new(HashSet::new());
    let mut images: Vec<(Vec<u8>, String)> = Vec::new();
    let mut durable = img0.clone();
    for (ei, ep) in eps.iter().enumerate() {
        for u in &ep.newly_durable {
            crash::apply_unit(&mut durable, u);
        }
        let k = ep.inflight.len();
        let mut subsets: Vec<Vec<usize>> = vec![vec![], (0..k).collect()];
        if k <= 8 {
            for m in 0..(1u32 << k) {
                subsets.push((0..k).filter(|i| m >> i & 1 == 1).collect());
            }
        } else {
            // prefixes, suffixes and single blocks at a stride (bounded family, reported as such)
            let stride = (k / 16).max(1);
            for i in (0..k).step_by(stride) {
                subsets.push((0..=i).collect());
                subsets.push((i..k).collect());
                subsets.push(vec![i]);
                subsets.push((0..k).filter(|x| *x != i).collect());
            }
        }
        subsets.sort();
        subsets.dedup();
        for s in subsets {
            let mut img = durable.clone();
            for &i in &s {
                crash::apply_unit(&mut img, &ep.inflight[i]);
            }
            if seen.lock().unwrap().insert(hash128(&img)) {
                let landed = if s.len() > 6 { format!("{} of {k} in-flight blocks ({}..={})", s.len(), s[0], s[s.len() - 1]) } else { format!("in-flight blocks {s:?} of {k}") };
                images.push((img, format!("crash inside recovery, epoch {ei} of {}: {landed}", eps.len())));
            }
        }
    }
    let n_images = images.len() as u64;
    let stop = std::sync::atomic::AtomicBool::new(false);
    let findings: std::sync::Mutex<Vec<(String, String)>> = std::sync::Mutex::new(Vec::new());
    let rec0 = &rec0;
    crate::util::par_for_each(images, crate::util::worker_threads(), &stop, |_, (img, desc)| {
        let f = TempFile::new("bigrec-n");
        std::fs::write(&f.0, &img).unwrap();
        match crash::recover(cfg, f.path(), session(now, false)) {
            Err(e) => findings.lock().unwrap().push((desc, format!("C04: recovery cannot be restarted after a crash during recovery: {e}"))),
            Ok((mut sut, rec)) => {
                sut.close();
                if rec.contents() != rec0.contents() {
                    let k = rec.keys.get(b"k".as_slice());
                    let msg = match k {
                        Some(r) if r.ts == 200 => format!(
                            "C11: the newest generation of key k (ts 300) had expired and the first recovery reported the key absent; after a crash between two of recovery's retirement transactions the older generation (ts 200, no expiry) is back: {}",
                            brief(&rec)
                        ),
                        _ => String::new(),
                    };
                    let mut g = findings.lock().unwrap();
                    if !msg.is_empty() {
                        g.push((desc.clone(), msg));
                    }
                    g.push((desc, format!("C04: recovery restarted after a crash during recovery yields different contents: first recovery [{}], now [{}]", brief(rec0), brief(&rec))));
                }
            }
        }
    });
    report.add("crash_images_enumerated", n_images);
    report.add("recoveries_run", n_images + 1);
    report.add("traces_validated_against_impl", n_images + 1);
    report.set(
        if torn_slot0 { "big_recovery_torn_journal_slot" } else { "big_recovery" },
        json!({"records_on_device": 2 * ISOLATED + 3, "extents_recovery_retires": ISOLATED + 2, "journal_records_written_by_recovery": journal_records, "recovery_epochs": eps.len(), "distinct_crash_images": n_images,
               "note": "epochs with more than 8 in-flight blocks: prefixes, suffixes, singles and co-singles at a stride (bounded family)"}),
    );
    let mut fs = findings.into_inner().unwrap();
    fs.sort();
    let mut per_tag = std::collections::HashMap::<String, usize>::new();
    for (desc, msg) in fs {
        let tag = super::tag_of(&msg).unwrap_or_default();
        if !accept.contains(&tag.as_str()) {
            continue;
        }
        let n = per_tag.entry(tag).or_insert(0);
        *n += 1;
        if *n > 2 {
            continue;
        }
        report.violation(
            format!("bigrecovery{}|{}|{}", if torn_slot0 { "+torn-slot0" } else { "" }, desc.chars().take(60).collect::<String>(), msg.chars().take(100).collect::<String>()),
            format!(
                "synthesised device: {}\n{desc}\n{msg}",
                if torn_slot0 {
                    format!("newest generation of k on block 16, {ISOLATED} superseded generations of k scattered behind it, journal slot 0 torn, slot 1 a valid CLEAR")
                } else {
                    format!("expired newest generation of k on block 16, {ISOLATED} isolated expired records, older unexpired generation of k on block {}", 18 + 2 * ISOLATED)
                }
            ),
            json!({"engine":"bigrecovery","image":desc}),
        );
    }
}
