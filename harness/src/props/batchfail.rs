//! Batches that fail half-way: every composition of 2..4 records of 1..3 blocks whose last
//! record finds no room (the allocations made so far are handed back together), or whose
//! record writes fail three times (the scrubbed allocations are handed back together), then
//! the retry, then every free block filled with other keys. Exhaustive over the small
//! structured space (sizes x count x failure kind x what the application does about it).
//!
//! Oracles: every key reads back its own bytes (C08), the data area is exactly
//! partitioned and the usage counter matches (C05), a flush that returned Ok made the
//! state durable (C09 / C02: clean reopen reads the same).

use crate::crash::structural_live;
use crate::suites::big_value;
use crate::sut::{Cfg, Sut};
use crate::util::{par_for_each, show, Report};
use serde_json::json;
use std::sync::atomic::{AtomicBool, AtomicU64, Ordering};
use std::sync::Mutex;

#[derive(Clone, Copy, Debug, PartialEq, Eq)]
pub enum Fail {
    /// the last record of the batch does not fit; the application deletes it and flushes again
    NoRoomThenDelete,
    /// ... the application replaces it by a one-block value and flushes again
    NoRoomThenShrink,
    /// the first three writes into the data area fail, then the device works again
    WritesFailThrice,
}

fn value_of(i: usize, blocks: usize) -> Vec<u8> {
    // one block holds a short key and up to ~4000 value bytes; n blocks: (n-1)*4096 + 1000
    let len = if blocks == 1 { 600 + i } else { (blocks - 1) * 4096 + 1000 + i };
    big_value(len, 0x60 + i as u8)
}

fn run_case(sizes: &[usize], fail: Fail, prefilled: usize, overwrite: bool) -> Result<Vec<String>, String> {
    let k = sizes.len();
    let before_last: usize = sizes[..k - 1].iter().sum();
    let data_blocks = match fail {
        Fail::WritesFailThrice => (prefilled + overwrite as usize + sizes.iter().sum::<usize>() + 3) as u64,
        // the last record is one block short of fitting (a replacement needs its new block while the old one is still held)
        _ => (prefilled + overwrite as usize + before_last + sizes[k - 1] - 1) as u64,
    };
    if data_blocks < 2 {
        return Ok(Vec::new());
    }
    let mut cfg = Cfg::persistent(data_blocks);
    cfg.cache = false;
    let mut sut = Sut::create(cfg, "batchfail")?;
    let st = sut.store().clone();
    let mut want: Vec<(Vec<u8>, Vec<u8>)> = Vec::new();
    let mut problems = Vec::new();
    // records that are durable before the batch under test (their neighbours' blocks get reused)
    for i in 0..prefilled {
        let key = format!("p{i}").into_bytes();
        let v = value_of(20 + i, 1);
        st.insert(&key, &v).map_err(|e| format!("prefill insert: {e:?}"))?;
        want.push((key, v));
    }
    if prefilled > 0 {
        let _ = st.flush();
    }
    if overwrite {
        // the failing batch starts with a replacement of a durable record
        let v = value_of(30, 1);
        st.insert(b"p0", &v).map_err(|e| format!("overwrite: {e:?}"))?;
        want.retain(|(key, _)| key != b"p0");
        want.push((b"p0".to_vec(), v));
    }
    let keys: Vec<Vec<u8>> = (0..k).map(|i| format!("k{i}").into_bytes()).collect();
    for (i, &b) in sizes.iter().enumerate() {
        let v = value_of(i, b);
        st.insert(&keys[i], &v).map_err(|e| format!("insert: {e:?}"))?;
        want.push((keys[i].clone(), v));
    }
    if fail == Fail::WritesFailThrice {
        sut.sess.fault.lock().fail_data_writes = 3;
    }
    let _ = st.flush(); // expected to report the failure; the verdicts below do not depend on what it says
    sut.sess.fault.lock().fail_data_writes = 0;
    match fail {
        Fail::NoRoomThenDelete => {
            st.delete(&keys[k - 1]).map_err(|e| format!("delete: {e:?}"))?;
            want.retain(|(key, _)| key != &keys[k - 1]);
        }
        Fail::NoRoomThenShrink => {
            let v = value_of(9, 1);
            st.insert(&keys[k - 1], &v).map_err(|e| format!("shrink: {e:?}"))?;
            want.retain(|(key, _)| key != &keys[k - 1]);
            want.push((keys[k - 1].clone(), v));
        }
        Fail::WritesFailThrice => {}
    }
    let _ = st.flush();
    let _ = st.flush();
    // fill every free block with one-block records of other keys, one flush per key and all at once
    let d = st.verif_dump();
    let free: u64 = d.free_runs.iter().map(|r| r.1).sum();
    for i in 0..free as usize {
        let key = format!("f{i}").into_bytes();
        let v = value_of(40 + i, 1);
        if st.insert(&key, &v).is_ok() {
            want.push((key, v));
        }
        if i % 2 == 0 {
            let _ = st.flush();
        }
    }
    let _ = st.flush();
    let _ = st.flush();
    let desc = format!("{sizes:?} blocks, {fail:?}, {prefilled} durable records before the batch{}, {data_blocks} data blocks", if overwrite { " (one of them replaced in the batch)" } else { "" });
    let check_reads = |store: &feoxdb::FeoxStore, when: &str, problems: &mut Vec<String>| {
        for (key, v) in &want {
            match store.get(key) {
                Ok(got) if &got == v => {}
                Ok(got) => problems.push(format!(
                    "C08: C05: [{desc}] {when}: key {} reads {} instead of its own value {}",
                    show(key),
                    show(&got),
                    show(v)
                )),
                Err(e) => problems.push(format!("C08: C05: C09: [{desc}] {when}: key {} reads {e:?} although nothing rewrites it (its value is {})", show(key), show(v))),
            }
        }
    };
    check_reads(&st, "after the retry and the refill", &mut problems);
    let d = st.verif_dump();
    if d.buffered.is_empty() && d.retirements.is_empty() && d.records.iter().all(|r| r.sector != 0) {
        for m in structural_live(&cfg, &d) {
            problems.push(format!("{m} [{desc}]"));
        }
        let live_bytes: u64 = d.records.iter().map(|r| r.blocks * 4096).sum();
        if d.disk_usage != live_bytes {
            problems.push(format!("C05: [{desc}] the usage counter says {} bytes but the live extents add up to {live_bytes}", d.disk_usage));
        }
    } else {
        problems.push(format!(
            "C09: C05: [{desc}] after the device worked again (or room was made) and flush() was called three times, {} write(s) are still buffered, {} retirement(s) queued, {} record(s) without an extent",
            d.buffered.len(),
            d.retirements.len(),
            d.records.iter().filter(|r| r.sector == 0).count()
        ));
    }
    drop(st);
    match sut.reopen() {
        Ok(()) => {
            // (reopen runs under its own watchdog window and clears it: open a new one for the read-back)
            let _call = crate::util::in_call("failed-batch case (read-back after reopen)");
            let st = sut.store().clone();
            check_reads(&st, "after a clean reopen", &mut problems);
            let n = st.len();
            if n != want.len() {
                problems.push(format!("C05: C02: [{desc}] after a clean reopen the store holds {n} keys, expected {}", want.len()));
            }
        }
        Err(e) => problems.push(format!("C03: C05: [{desc}] the device does not reopen after a clean close: {e:?}")),
    }
    sut.close();
    Ok(problems)
}

// ---------------------------------------------------------------------------------------------
// Retirement of extents of hundreds of blocks with live neighbours directly behind them: the marker
// writes are cut into pieces of 256 blocks, so every size around the piece boundaries is tried.

#[derive(Clone, Copy, Debug, PartialEq, Eq)]
pub enum Retire {
    Delete,
    OverwriteSmall,
    OverwriteSame,
}

fn run_large(blocks: usize, how: Retire, reopen_before_refill: bool) -> Result<Vec<String>, String> {
    let data_blocks = (2 * blocks + 16) as u64;
    let mut cfg = Cfg::persistent(data_blocks);
    cfg.cache = false;
    let mut sut = Sut::create(cfg, "largeretire")?;
    let st = sut.store().clone();
    let mut want: Vec<(Vec<u8>, Vec<u8>)> = Vec::new();
    let mut problems = Vec::new();
    let big = big_value((blocks - 1) * 4096 + 1000, 0x71);
    st.insert(b"big", &big).map_err(|e| format!("insert big: {e:?}"))?;
    let _ = st.flush();
    // neighbours directly behind the large extent
    for (i, b) in [1usize, 2, 3].iter().enumerate() {
        let key = format!("n{i}").into_bytes();
        let v = value_of(50 + i, *b);
        st.insert(&key, &v).map_err(|e| format!("insert neighbour: {e:?}"))?;
        want.push((key, v));
    }
    let _ = st.flush();
    match how {
        Retire::Delete => {
            st.delete(b"big").map_err(|e| format!("delete big: {e:?}"))?;
        }
        Retire::OverwriteSmall => {
            let v = value_of(60, 1);
            st.insert(b"big", &v).map_err(|e| format!("overwrite big: {e:?}"))?;
            want.push((b"big".to_vec(), v));
        }
        Retire::OverwriteSame => {
            let v = big_value((blocks - 1) * 4096 + 1000, 0x72);
            st.insert(b"big", &v).map_err(|e| format!("overwrite big: {e:?}"))?;
            want.push((b"big".to_vec(), v));
        }
    }
    let _ = st.flush();
    let _ = st.flush();
    let desc = format!("an extent of {blocks} blocks retired by {how:?}, three live records directly behind it{}", if reopen_before_refill { ", restart before the hole is reused" } else { "" });
    let check = |store: &feoxdb::FeoxStore, when: &str, want: &[(Vec<u8>, Vec<u8>)], problems: &mut Vec<String>| {
        for (key, v) in want {
            match store.get(key) {
                Ok(got) if &got == v => {}
                Ok(got) => problems.push(format!("C05: C08: [{desc}] {when}: key {} reads {} instead of its own value {}", show(key), show(&got), show(v))),
                Err(e) => problems.push(format!("C05: C08: [{desc}] {when}: key {} reads {e:?} although nothing rewrites it", show(key))),
            }
        }
        let d = store.verif_dump();
        if d.buffered.is_empty() && d.retirements.is_empty() && d.records.iter().all(|r| r.sector != 0) {
            for m in structural_live(&cfg, &d) {
                problems.push(format!("{m} [{desc}] {when}"));
            }
        }
    };
    check(&st, "after the retirement", &want, &mut problems);
    drop(st);
    if reopen_before_refill {
        if let Err(e) = sut.reopen() {
            problems.push(format!("C03: C05: [{desc}] the device does not reopen: {e:?}"));
            sut.close();
            return Ok(problems);
        }
        let _call = crate::util::in_call("large-extent case (after reopen)");
        check(&sut.store().clone(), "after a clean reopen", &want, &mut problems);
    }
    // the hole is reused by smaller extents (two thirds, then the rest in one-block records up to 8)
    {
        let _call = crate::util::in_call("large-extent case (refill)");
        let st = sut.store().clone();
        let v = big_value((blocks * 2 / 3).max(1) * 4096 - 3000, 0x73);
        if st.insert(b"refill", &v).is_ok() {
            want.push((b"refill".to_vec(), v));
        }
        for i in 0..8 {
            let key = format!("r{i}").into_bytes();
            let v = value_of(70 + i, 1);
            if st.insert(&key, &v).is_ok() {
                want.push((key, v));
            }
        }
        let _ = st.flush();
        let _ = st.flush();
        check(&st, "after the hole was reused", &want, &mut problems);
    }
    match sut.reopen() {
        Ok(()) => {
            let _call = crate::util::in_call("large-extent case (final read-back)");
            let st = sut.store().clone();
            check(&st, "after the final reopen", &want, &mut problems);
            if st.len() != want.len() {
                problems.push(format!("C05: C02: [{desc}] after the final reopen the store holds {} keys, expected {}", st.len(), want.len()));
            }
        }
        Err(e) => problems.push(format!("C03: C05: [{desc}] the device does not reopen after a clean close: {e:?}")),
    }
    sut.close();
    Ok(problems)
}

/// Large-extent retirement family. `accept`: the property tags the calling check counts.
pub fn run_large_family(accept: &[&str], thorough: bool, report: &mut Report) {
    let sizes: Vec<usize> = if thorough { vec![255, 256, 257, 300, 511, 512, 513, 600, 767, 768, 769, 1000, 1023] } else { vec![255, 256, 257, 511, 512, 513, 600, 769] };
    let mut cases = Vec::new();
    for &b in &sizes {
        for how in [Retire::Delete, Retire::OverwriteSmall, Retire::OverwriteSame] {
            for reopen in [false, true] {
                if !thorough && how == Retire::OverwriteSame && reopen {
                    continue;
                }
                cases.push((b, how, reopen));
            }
        }
    }
    let n_cases = cases.len() as u64;
    let bad: Mutex<Vec<(String, String)>> = Mutex::new(Vec::new());
    let mach: Mutex<Vec<String>> = Mutex::new(Vec::new());
    let stop = AtomicBool::new(false);
    par_for_each(cases, crate::util::worker_threads(), &stop, |_, (b, how, reopen)| {
        crate::util::set_context(json!({"engine": "largeretire", "blocks": b, "how": format!("{how:?}"), "reopen": reopen}));
        let _call = crate::util::in_call("large-extent case (insert / flush / retire)");
        match run_large(b, how, reopen) {
            Ok(problems) => {
                for p in problems {
                    if super::accepted(accept, &p) {
                        let mut g = bad.lock().unwrap();
                        if g.len() < 40 {
                            g.push((format!("{b}|{how:?}|{reopen}"), p));
                        }
                    }
                }
            }
            Err(e) => mach.lock().unwrap().push(format!("largeretire {b} {how:?}: {e}")),
        }
    });
    let mut bad = bad.into_inner().unwrap();
    bad.sort_by_key(|b| (b.0.len(), b.0.clone()));
    for (case, msg) in bad.into_iter().take(4) {
        report.violation(format!("largeretire|{case}|{}", msg.chars().take(110).collect::<String>()), msg, json!({"engine": "largeretire", "case": case}));
    }
    for m in mach.into_inner().unwrap().into_iter().take(3) {
        report.machinery(m);
    }
    report.add("evaluations", n_cases);
    report.add("traces_validated_against_impl", n_cases);
    report.set("large_extent_retirement_family", json!({"cases": n_cases, "extent_blocks": sizes, "retired_by": ["delete", "overwrite by one block", "overwrite by the same size"], "restart_before_reuse": [false, true], "exhaustive": true}));
}

// ---------------------------------------------------------------------------------------------
// Closing a store whose device keeps failing: the drop must come back (C18), whatever is lost.

pub fn run_close_on_failing_device(report: &mut Report) {
    let mut all = Vec::new();
    for workers in [1usize, 2] {
        for kind in ["record writes fail", "every write fails", "fsyncs fail"] {
            for pending in [1usize, 3] {
                // (the slow cases - a thousand retries each - are kept few: the watchdog's margin must hold on a busy machine)
                if workers == 2 && pending == 1 {
                    continue;
                }
                all.push((workers, kind, pending));
            }
        }
    }
    let cases = AtomicU64::new(0);
    let stop = AtomicBool::new(false);
    par_for_each(all, crate::util::worker_threads(), &stop, |_, (workers, kind, pending)| {
        {
            {
                let cases = &cases;
                let mut cfg = Cfg::persistent(24);
                cfg.workers = workers;
                cfg.cache = false;
                let Ok(mut sut) = Sut::create(cfg, "closefail") else { return };
                crate::util::set_context(json!({"engine": "closefail", "workers": workers, "kind": kind, "pending": pending}));
                {
                    let _call = crate::util::in_call("insert / flush before the device starts failing");
                    let st = sut.store().clone();
                    let _ = st.insert(b"durable", b"before the fault");
                    let _ = st.flush();
                    {
                        let mut f = sut.sess.fault.lock();
                        match kind {
                            "record writes fail" => {
                                // record data only: scrubbing markers and the journal keep working, so the batch
                                // fails cleanly (retryable) instead of leaving the device indeterminate
                                f.enabled = true;
                                f.fail_from = Some(0);
                                f.fail_from_kind = 1;
                            }
                            "every write fails" => f.fail_writes = true,
                            _ => f.fail_fsyncs = true,
                        }
                    }
                    for i in 0..pending {
                        let _ = st.insert(format!("pending{i}").as_bytes(), b"accepted while the device fails");
                    }
                    if pending > 1 {
                        let _ = st.delete(b"durable");
                    }
                }
                // Sut::close runs the drop under the call watchdog ("close (drop)")
                let t0 = std::time::Instant::now();
                let seen_before = sut.sess.device_writes.load(std::sync::atomic::Ordering::SeqCst);
                sut.close();
                if std::env::var_os("VERIF_DEBUG_CLOSE").is_some() {
                    eprintln!("closefail {workers} workers, {kind}, {pending} pending: drop took {:?}, device writes during the drop {}", t0.elapsed(), sut.sess.device_writes.load(std::sync::atomic::Ordering::SeqCst) - seen_before);
                }
                {
                    let mut f = sut.sess.fault.lock();
                    f.fail_data_writes = 0;
                    f.fail_from = None;
                    f.fail_writes = false;
                    f.fail_fsyncs = false;
                }
                cases.fetch_add(1, Ordering::Relaxed);
            }
        }
    });
    let cases = cases.load(Ordering::Relaxed);
    report.add("evaluations", cases);
    report.set("close_on_failing_device_cases", cases);
}

/// All cases. `accept`: the property tags the calling check counts.
pub fn run(accept: &[&str], thorough: bool, report: &mut Report) {
    let max_k = if thorough { 5 } else { 4 };
    let mut cases: Vec<(Vec<usize>, Fail, usize, bool)> = Vec::new();
    let mut sizes: Vec<Vec<usize>> = vec![vec![]];
    for _ in 0..max_k {
        let mut next = Vec::new();
        for s in &sizes {
            if s.len() == max_k {
                continue;
            }
            for b in 1..=3usize {
                let mut n = s.clone();
                n.push(b);
                next.push(n);
            }
        }
        for s in &next {
            if s.len() >= 2 {
                for fail in [Fail::NoRoomThenDelete, Fail::NoRoomThenShrink, Fail::WritesFailThrice] {
                    for prefilled in [0usize, 2] {
                        // replacing a one-block record by a one-block record makes no room
                        if fail == Fail::NoRoomThenShrink && s[s.len() - 1] == 1 {
                            continue;
                        }
                        cases.push((s.clone(), fail, prefilled, false));
                        if prefilled > 0 {
                            cases.push((s.clone(), fail, prefilled, true));
                        }
                    }
                }
            }
        }
        sizes = next;
    }
    let n_cases = cases.len() as u64;
    let bad: Mutex<Vec<(String, String)>> = Mutex::new(Vec::new());
    let mach: Mutex<Vec<String>> = Mutex::new(Vec::new());
    let stop = AtomicBool::new(false);
    let done = AtomicU64::new(0);
    par_for_each(cases, crate::util::worker_threads(), &stop, |_, (s, fail, pre, ow)| {
        crate::util::set_context(json!({"engine": "batchfail", "sizes": s, "fail": format!("{fail:?}"), "prefilled": pre, "overwrite": ow}));
        // a case is a handful of calls taking milliseconds: the whole case runs under the call watchdog
        let _call = crate::util::in_call("failed-batch case (insert / flush / delete / reopen)");
        match run_case(&s, fail, pre, ow) {
            Ok(problems) => {
                for p in problems {
                    if super::accepted(accept, &p) {
                        let mut b = bad.lock().unwrap();
                        if b.len() < 40 {
                            b.push((format!("{s:?}|{fail:?}|{pre}{}", if ow { "+ow" } else { "" }), p));
                        }
                    }
                }
            }
            Err(e) => mach.lock().unwrap().push(format!("batchfail {s:?} {fail:?}: {e}")),
        }
        done.fetch_add(1, Ordering::Relaxed);
    });
    let mut bad = bad.into_inner().unwrap();
    bad.sort_by_key(|b| (b.0.len(), b.0.clone()));
    for (case, msg) in bad.into_iter().take(6) {
        report.violation(
            format!("batchfail|{case}|{}", msg.chars().take(110).collect::<String>()),
            msg,
            json!({"engine": "batchfail", "case": case}),
        );
    }
    for m in mach.into_inner().unwrap().into_iter().take(3) {
        report.machinery(m);
    }
    report.add("evaluations", n_cases);
    report.add("traces_validated_against_impl", n_cases);
    report.set(
        "failed_batch_family",
        json!({"cases": n_cases, "completed": done.load(Ordering::Relaxed), "records_per_batch": format!("2..={max_k}"), "blocks_per_record": "1..=3",
               "failure_kinds": ["last record finds no room, then deleted", "last record finds no room, then replaced by a one-block value", "first three data writes fail"],
               "durable_records_before_the_batch": [0, 2], "one_of_them_replaced_in_the_batch": [false, true], "exhaustive": true}),
    );
}
