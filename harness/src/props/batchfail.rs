//! Batches that fail half-way: every composition of 2..4 records of 1..3 blocks whose last
//! record finds no room (the allocations made so far are handed back together), or whose
//! record writes fail three times (the scrubbed allocations are handed back together), then
//! the retry, then every free block filled with other keys. Exhaustive over the small
//! structured space (sizes x count x failure kind x what the application does about it).
//!
//! Oracles: every key reads back its own bytes (C08), the data area is exactly
//! partitioned and the usage counter matches (C05), a flush that returned Ok made the
//! state durable (C09 / C02: clean reopen reads the same).

use crate::crash::structural_live;
use crate::suites::big_value;
use crate::sut::{Cfg, Sut};
use crate::util::{par_for_each, show, Report};
use serde_json::json;
use std::sync::atomic::{AtomicBool, AtomicU64, Ordering};
use std::sync::Mutex;

#[derive(Clone, Copy, Debug, PartialEq, Eq)]
pub enum Fail {
    /// the last record of the batch does not fit; the application deletes it and flushes again
    NoRoomThenDelete,
    /// ... the application replaces it by a one-block value and flushes again
    NoRoomThenShrink,
    /// the first three writes into the data area fail, then the device works again
    WritesFailThrice,
}

fn value_of(i: usize, blocks: usize) -> Vec<u8> {
    // one block holds a short key and up to ~4000 value bytes; n blocks: (n-1)*4096 + 1000
    let len = if blocks == 1 { 600 + i } else { (blocks - 1) * 4096 + 1000 + i };
    big_value(len, 0x60 + i as u8)
}

fn run_case(sizes: &[usize], fail: Fail, prefilled: usize, overwrite: bool) -> Result<Vec<String>, String> {
    let k = sizes.len();
    let before_last: usize = sizes[..k - 1].iter().sum();
    let data_blocks = match fail {
        Fail::WritesFailThrice => (prefilled + overwrite as usize + sizes.iter().sum::<usize>() + 3) as u64,
        // the last record is one block short of fitting (a replacement needs its new block while the old one is still held)
        _ => (prefilled + overwrite as usize + before_last + sizes[k - 1] - 1) as u64,
    };
    if data_blocks < 2 {
        return Ok(Vec::new());
    }
    let mut cfg = Cfg::persistent(data_blocks);
    cfg.cache = false;
    let mut sut = Sut::create(cfg, "batchfail")?;
    let st = sut.store().clone();
    let mut want: Vec<(Vec<u8>, Vec<u8>)> = Vec::new();
    let mut problems = Vec::new();
    // records that are durable before the batch under test (their neighbours' blocks get reused)
    for i in 0..prefilled {
        let key = format!("p{i}").into_bytes();
        let v = value_of(20 + i, 1);
        st.insert(&key, &v).map_err(|e| format!("prefill insert: {e:?}"))?;
        want.push((key, v));
    }
    if prefilled > 0 {
        let _ = st.flush();
    }
    if overwrite {
        // the failing batch starts with a replacement of a durable record
        let v = value_of(30, 1);
        st.insert(b"p0", &v).map_err(|e| format!("overwrite: {e:?}"))?;
        want.retain(|(key, _)| key != b"p0");
        want.push((b"p0".to_vec(), v));
    }
    let keys: Vec<Vec<u8>> = (0..k).map(|i| format!("k{i}").into_bytes()).collect();
    for (i, &b) in sizes.iter().enumerate() {
        let v = value_of(i, b);
        st.insert(&keys[i], &v).map_err(|e| format!("insert: {e:?}"))?;
        want.push((keys[i].clone(), v));
    }
    if fail == Fail::WritesFailThrice {
        sut.sess.fault.lock().fail_data_writes = 3;
    }
    let _ = st.flush(); // expected to report the failure; the verdicts below do not depend on what it says
    sut.sess.fault.lock().fail_data_writes = 0;
    match fail {
        Fail::NoRoomThenDelete => {
            st.delete(&keys[k - 1]).map_err(|e| format!("delete: {e:?}"))?;
            want.retain(|(key, _)| key != &keys[k - 1]);
        }
        Fail::NoRoomThenShrink => {
            let v = value_of(9, 1);
            st.insert(&keys[k - 1], &v).map_err(|e| format!("shrink: {e:?}"))?;
            want.retain(|(key, _)| key != &keys[k - 1]);
            want.push((keys[k - 1].clone(), v));
        }
        Fail::WritesFailThrice => {}
    }
    let _ = st.flush();
    let _ = st.flush();
    // fill every free block with one-block records of other keys, one flush per key and all at once
    let d = st.verif_dump();
    let free: u64 = d.free_runs.iter().map(|r| r.1).sum();
    for i in 0..free as usize {
        let key = format!("f{i}").into_bytes();
        let v = value_of(40 + i, 1);
        if st.insert(&key, &v).is_ok() {
            want.push((key, v));
        }
        if i % 2 == 0 {
            let _ = st.flush();
        }
    }
    let _ = st.flush();
    let _ = st.flush();
    let desc = format!("{sizes:?} blocks, {fail:?}, {prefilled} durable records before the batch{}, {data_blocks} data blocks", if overwrite { " (one of them replaced in the batch)" } else { "" });
    let check_reads = |store: &feoxdb::FeoxStore, when: &str, problems: &mut Vec<String>| {
        for (key, v) in &want {
            match store.get(key) {
                Ok(got) if &got == v => {}
                Ok(got) => problems.push(format!(
                    "C08: C05: [{desc}] {when}: key {} reads {} instead of its own value {}",
                    show(key),
                    show(&got),
                    show(v)
                )),
                Err(e) => problems.push(format!("C08: C05: C09: [{desc}] {when}: key {} reads {e:?} although nothing rewrites it (its value is {})", show(key), show(v))),
            }
        }
    };
    check_reads(&st, "after the retry and the refill", &mut problems);
    let d = st.verif_dump();
    if d.buffered.is_empty() && d.retirements.is_empty() && d.records.iter().all(|r| r.sector != 0) {
        for m in structural_live(&cfg, &d) {
            problems.push(format!("{m} [{desc}]"));
        }
        let live_bytes: u64 = d.records.iter().map(|r| r.blocks * 4096).sum();
        if d.disk_usage != live_bytes {
            problems.push(format!("C05: [{desc}] the usage counter says {} bytes but the live extents add up to {live_bytes}", d.disk_usage));
        }
    } else {
        problems.push(format!(
            "C09: C05: [{desc}] after the device worked again (or room was made) and flush() was called three times, {} write(s) are still buffered, {} retirement(s) queued, {} record(s) without an extent",
            d.buffered.len(),
            d.retirements.len(),
            d.records.iter().filter(|r| r.sector == 0).count()
        ));
    }
    drop(st);
    match sut.reopen() {
        Ok(()) => {
            // (reopen runs under its own watchdog window and clears it: open a new one for the read-back)
            let _call = crate::util::in_call("failed-batch case (read-back after reopen)");
            let st = sut.store().clone();
            check_reads(&st, "after a clean reopen", &mut problems);
            let n = st.len();
            if n != want.len() {
                problems.push(format!("C05: C02: [{desc}] after a clean reopen the store holds {n} keys, expected {}", want.len()));
            }
        }
        Err(e) => problems.push(format!("C03: C05: [{desc}] the device does not reopen after a clean close: {e:?}")),
    }
    sut.close();
    Ok(problems)
}

/// All cases. `accept`: the property tags the calling check counts.
pub fn run(accept: &[&str], thorough: bool, report: &mut Report) {
    let max_k = if thorough { 5 } else { 4 };
    let mut cases: Vec<(Vec<usize>, Fail, usize, bool)> = Vec::new();
    let mut sizes: Vec<Vec<usize>> = vec![vec![]];
    for _ in 0..max_k {
        let mut next = Vec::new();
        for s in &sizes {
            if s.len() == max_k {
                continue;
            }
            for b in 1..=3usize {
                let mut n = s.clone();
                n.push(b);
                next.push(n);
            }
        }
        for s in &next {
            if s.len() >= 2 {
                for fail in [Fail::NoRoomThenDelete, Fail::NoRoomThenShrink, Fail::WritesFailThrice] {
                    for prefilled in [0usize, 2] {
                        // replacing a one-block record by a one-block record makes no room
                        if fail == Fail::NoRoomThenShrink && s[s.len() - 1] == 1 {
                            continue;
                        }
                        cases.push((s.clone(), fail, prefilled, false));
                        if prefilled > 0 {
                            cases.push((s.clone(), fail, prefilled, true));
                        }
                    }
                }
            }
        }
        sizes = next;
    }
    let n_cases = cases.len() as u64;
    let bad: Mutex<Vec<(String, String)>> = Mutex::new(Vec::new());
    let mach: Mutex<Vec<String>> = Mutex::new(Vec::new());
    let stop = AtomicBool::new(false);
    let done = AtomicU64::new(0);
    par_for_each(cases, crate::util::worker_threads(), &stop, |_, (s, fail, pre, ow)| {
        crate::util::set_context(json!({"engine": "batchfail", "sizes": s, "fail": format!("{fail:?}"), "prefilled": pre, "overwrite": ow}));
        // a case is a handful of calls taking milliseconds: the whole case runs under the call watchdog
        let _call = crate::util::in_call("failed-batch case (insert / flush / delete / reopen)");
        match run_case(&s, fail, pre, ow) {
            Ok(problems) => {
                for p in problems {
                    if super::accepted(accept, &p) {
                        let mut b = bad.lock().unwrap();
                        if b.len() < 40 {
                            b.push((format!("{s:?}|{fail:?}|{pre}{}", if ow { "+ow" } else { "" }), p));
                        }
                    }
                }
            }
            Err(e) => mach.lock().unwrap().push(format!("batchfail {s:?} {fail:?}: {e}")),
        }
        done.fetch_add(1, Ordering::Relaxed);
    });
    let mut bad = bad.into_inner().unwrap();
    bad.sort_by_key(|b| (b.0.len(), b.0.clone()));
    for (case, msg) in bad.into_iter().take(6) {
        report.violation(
            format!("batchfail|{case}|{}", msg.chars().take(110).collect::<String>()),
            msg,
            json!({"engine": "batchfail", "case": case}),
        );
    }
    for m in mach.into_inner().unwrap().into_iter().take(3) {
        report.machinery(m);
    }
    report.add("evaluations", n_cases);
    report.add("traces_validated_against_impl", n_cases);
    report.set(
        "failed_batch_family",
        json!({"cases": n_cases, "completed": done.load(Ordering::Relaxed), "records_per_batch": format!("2..={max_k}"), "blocks_per_record": "1..=3",
               "failure_kinds": ["last record finds no room, then deleted", "last record finds no room, then replaced by a one-block value", "first three data writes fail"],
               "durable_records_before_the_batch": [0, 2], "one_of_them_replaced_in_the_batch": [false, true], "exhaustive": true}),
    );
}
