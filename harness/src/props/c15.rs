//! C15 — MIG: offline migration over (a) exhaustively synthesised legacy images,
//! (b) crash images of real v1/v2 workloads, × opt-in × destination present/absent,
//! plus environment interference (the source changes) at every point of migrate().

use crate::crash;
use crate::layoutref::{self as l, Rec};
use crate::seq::{self, PathOutcome, Suite};
use crate::session::Session;
use crate::suites::{self, big_value};
use crate::sut::T0;
use crate::util::{hash128, par_for_each, scratch_root, show, Deadline, Report};
use serde_json::json;
use std::collections::{BTreeMap, HashSet};
use std::panic::{catch_unwind, AssertUnwindSafe};
use std::path::{Path, PathBuf};
use std::sync::atomic::{AtomicBool, AtomicU64, Ordering};
use std::sync::{Arc, Mutex};

const BLOCK: usize = 4096;
const SEC: u64 = 1_000_000_000;

type Contents = BTreeMap<Vec<u8>, (Vec<u8>, u64, u64)>;

/// Items an image is synthesised from.
#[derive(Clone, Copy, Debug, PartialEq, Eq, Hash)]
enum Item {
    Rec1,        // one-block record of key k1
    Rec2,        // two-block record of key k2
    OlderDup,    // an older generation of k1
    NewerDup,    // a newer generation of k1
    ExpiredWin,  // newest generation of k1 carries a lapsed expiry (v2 only)
    Marker,      // token-style complete marker over one block
    Marker2,     // token-style marker over two blocks
    MarkerTornTail, // complete two-block marker head whose tail block was never stamped and still looks like a record
    LegacyMark,  // ambiguous legacy marker
    LegacyOverCont, // legacy marker followed by what looks like a record (continuation of a deleted multi-block value)
    JournalOne,  // active journal entry covering the next record
    JournalTwoDesc, // active journal with two extents listed in descending order, both holding complete records
    MaxKey,      // record with the longest recoverable key
    Gap,         // a never-used block
    Grown,       // the file was grown after creation: the header's device size ends here, what follows lies beyond it
}

const ITEMS: [Item; 15] = [
    Item::Rec1,
    Item::Rec2,
    Item::OlderDup,
    Item::NewerDup,
    Item::ExpiredWin,
    Item::Marker,
    Item::Marker2,
    Item::MarkerTornTail,
    Item::LegacyMark,
    Item::LegacyOverCont,
    Item::JournalOne,
    Item::JournalTwoDesc,
    Item::MaxKey,
    Item::Gap,
    Item::Grown,
];

fn synth(version: u32, items: &[Item]) -> Vec<u8> {
    let total = 40u64;
    let mut img = l::empty_device(version, total, T0 / SEC);
    let mut at = 16u64;
    let mut journal: Vec<(u64, u64)> = Vec::new();
    let mut put = |img: &mut Vec<u8>, at: &mut u64, key: &[u8], value: Vec<u8>, ts: u64, expiry: u64| -> (u64, u64) {
        let r = Rec { key: key.to_vec(), value, timestamp: ts, expiry: if version >= 2 { expiry } else { 0 } };
        let bytes = l::encode_record(version, *at, &r);
        let start = *at;
        l::put(img, *at, &bytes);
        *at += (bytes.len() / BLOCK) as u64;
        (start, (bytes.len() / BLOCK) as u64)
    };
    let mut pending_journal = false;
    let mut header_blocks: Option<u64> = None;
    for it in items {
        let before = at;
        match it {
            Item::Rec1 => {
                put(&mut img, &mut at, b"k1", b"one".to_vec(), 1000, 0);
            }
            Item::Rec2 => {
                put(&mut img, &mut at, b"k2", big_value(5000, 0x21), 1001, 0);
            }
            Item::OlderDup => {
                put(&mut img, &mut at, b"k1", b"older".to_vec(), 500, 0);
            }
            Item::NewerDup => {
                put(&mut img, &mut at, b"k1", b"newer".to_vec(), 2000, 0);
            }
            Item::ExpiredWin => {
                put(&mut img, &mut at, b"k1", b"expired-winner".to_vec(), 3000, 4000);
            }
            Item::Marker => {
                l::put(&mut img, at, &l::encode_marker(at, 1, 1));
                at += 1;
            }
            Item::Marker2 => {
                l::put(&mut img, at, &l::encode_marker(at, 2, 1));
                l::put(&mut img, at + 1, &l::encode_marker(at + 1, 1, 1));
                at += 2;
            }
            Item::MarkerTornTail => {
                // the head says "two blocks retired, complete"; the tail stamp is missing and the block
                // still holds what looks like a record: the whole extent is retired all the same
                l::put(&mut img, at, &l::encode_marker(at, 2, 1));
                at += 1;
                put(&mut img, &mut at, b"ghost2", b"tail of a retired extent".to_vec(), 9500, 0);
            }
            Item::LegacyMark => {
                l::put(&mut img, at, &l::encode_legacy_marker());
                at += 1;
            }
            Item::LegacyOverCont => {
                // head of a deleted two-block record replaced by a legacy marker; its
                // continuation block happens to look like a record of key "ghost"
                l::put(&mut img, at, &l::encode_legacy_marker());
                at += 1;
                put(&mut img, &mut at, b"ghost", b"continuation bytes".to_vec(), 9000, 0);
            }
            Item::JournalOne => {
                pending_journal = true;
                continue;
            }
            Item::JournalTwoDesc => {
                // two complete, half-committed records; the journal lists them high block first
                let a = put(&mut img, &mut at, b"j-low", b"uncommitted-low".to_vec(), 7000, 0);
                at += 1;
                let b = put(&mut img, &mut at, b"j-high", b"uncommitted-high".to_vec(), 7001, 0);
                journal.push(b);
                journal.push(a);
            }
            Item::MaxKey => {
                let maxk = if version == 1 { 4096 - 22 } else { 4096 - 30 };
                put(&mut img, &mut at, &vec![b'M'; maxk], b"m".to_vec(), 1500, 0);
            }
            Item::Gap => at += 1,
            Item::Grown => {
                if header_blocks.is_none() {
                    header_blocks = Some(at.max(17));
                }
                continue;
            }
        }
        if pending_journal && at > before {
            journal.push((before, at - before));
            pending_journal = false;
        }
    }
    if !journal.is_empty() {
        l::put(&mut img, 1, &l::encode_journal(5, &journal));
    }
    if let Some(blocks) = header_blocks {
        // both metadata copies still record the size the device was created with
        for blk in [l::META_PRIMARY, l::META_BACKUP] {
            if let Some(mut meta) = l::block(&img, blk).and_then(l::decode_meta) {
                meta.device_size = blocks * BLOCK as u64;
                let enc = l::encode_meta(&meta);
                l::put(&mut img, blk, &enc);
            }
        }
    }
    img
}

/// Sources with more records than one scan batch (256) / one flush threshold (4096) of `migrate()`:
/// one one-block record per key, keys in the given order on consecutive blocks.
fn synth_many(version: u32, keys: &[Vec<u8>]) -> Vec<u8> {
    let total = 16 + keys.len() as u64 + 8;
    let mut img = l::empty_device(version, total, T0 / SEC);
    for (i, k) in keys.iter().enumerate() {
        let at = 16 + i as u64;
        let r = Rec { key: k.clone(), value: format!("value-{i}").into_bytes(), timestamp: 1000 + i as u64, expiry: 0 };
        let bytes = l::encode_record(version, at, &r);
        assert_eq!(bytes.len(), BLOCK);
        l::put(&mut img, at, &bytes);
    }
    img
}

/// Key families whose neighbours in byte order are related in the ways a paging cursor can get wrong:
/// fixed width, every key a proper prefix of the next, unpadded numbers, runs of 0xff bytes.
fn many_key_families(n: usize) -> Vec<(&'static str, Vec<Vec<u8>>)> {
    let fixed: Vec<Vec<u8>> = (0..n).map(|i| format!("k{i:05}").into_bytes()).collect();
    let chain: Vec<Vec<u8>> = (0..n).map(|i| {
        let mut k = b"p".to_vec();
        k.extend(std::iter::repeat(b'x').take(i));
        k
    }).collect();
    let numbers: Vec<Vec<u8>> = (0..n).map(|i| format!("user:{i}").into_bytes()).collect();
    let zeros: Vec<Vec<u8>> = (0..n).map(|i| {
        let mut k = b"z".to_vec();
        k.extend(std::iter::repeat(0u8).take(i));
        k
    }).collect();
    let mut ff: Vec<Vec<u8>> = (0..n.saturating_sub(40)).map(|i| format!("a{i:05}").into_bytes()).collect();
    ff.extend((1..=n.min(40)).map(|j| vec![0xffu8; j]));
    vec![("fixed", fixed), ("prefix-chain", chain), ("numbers", numbers), ("nul-chain", zeros), ("ff-runs", ff)]
}

struct Outcome {
    problems: Vec<String>,
    migrated_ok: bool,
}

fn open_contents(path: &Path, ttl: bool, allow: bool) -> Result<Contents, String> {
    let sess = Session::new();
    sess.clock.store(T0, Ordering::SeqCst);
    sess.set_flag(crate::session::F_NO_URING, true);
    sess.install();
    let store = catch_unwind(AssertUnwindSafe(|| {
        feoxdb::FeoxStore::builder()
            .hash_bits(4)
            .no_memory_limit()
            .enable_ttl(ttl)
            .allow_ambiguous_legacy_recovery(allow)
            .device_path(path.to_str().unwrap())
            .build()
    }));
    let store = match store {
        Ok(Ok(s)) => s,
        Ok(Err(e)) => return Err(crate::sut::err_name(&e)),
        Err(p) => return Err(format!("panic: {}", crate::sut::panic_text(p))),
    };
    let d = store.verif_dump();
    let mut c = Contents::new();
    for r in &d.records {
        match store.get(&r.key) {
            Ok(v) => {
                c.insert(r.key.clone(), (v, r.timestamp, r.ttl_expiry));
            }
            Err(e) => return Err(format!("get({}) failed: {e:?}", show(&r.key))),
        }
    }
    drop(store);
    Ok(c)
}

fn temp_siblings(dst: &Path) -> Vec<PathBuf> {
    let parent = dst.parent().unwrap();
    std::fs::read_dir(parent)
        .map(|rd| rd.filter_map(|e| e.ok()).map(|e| e.path()).filter(|p| p.file_name().unwrap().to_string_lossy().contains(".feox-migrate-")).collect())
        .unwrap_or_default()
}

/// Run one migration case in its own directory and apply the oracle.
/// `interfere`: modify the source when migrate() reaches this point.
fn run_case(dir: &Path, image: &[u8], allow: bool, dest_exists: bool, interfere: Option<&'static str>) -> Outcome {
    run_case_with(dir, image, allow, dest_exists, interfere, false)
}

/// Third interference kind: somebody renames a file of their own (an empty but valid v3
/// device) over migrate()'s temporary sibling at the given point. migrate() keeps its
/// descriptor to the original inode; what it publishes must be what it verified.
fn run_case_temp_replaced(dir: &Path, image: &[u8], point: &'static str) -> Outcome {
    let mut problems = Vec::new();
    let _ = std::fs::remove_dir_all(dir);
    std::fs::create_dir_all(dir).unwrap();
    let src = dir.join("source.feox");
    let dst = dir.join("dest.feox");
    std::fs::write(&src, image).unwrap();
    let decoy_bytes = l::empty_device(3, (image.len() / BLOCK) as u64 + 4, T0 / crate::sut::SEC);
    let sess = Session::new();
    sess.clock.store(T0, Ordering::SeqCst);
    sess.set_flag(crate::session::F_NO_URING, true);
    let replaced = std::sync::Arc::new(std::sync::atomic::AtomicBool::new(false));
    {
        let (dst2, dir2, replaced2) = (dst.clone(), dir.to_path_buf(), replaced.clone());
        *sess.point_cb.lock() = Some(Box::new(move |name| {
            if name == point && !replaced2.load(Ordering::SeqCst) {
                if let Some(tmp) = temp_siblings(&dst2).into_iter().next() {
                    let decoy = dir2.join("decoy.bin");
                    if std::fs::write(&decoy, &decoy_bytes).is_ok() && std::fs::rename(&decoy, &tmp).is_ok() {
                        replaced2.store(true, Ordering::SeqCst);
                    }
                }
            }
        }));
    }
    sess.install();
    let opts = feoxdb::MigrationOptions::new(&src, &dst).verif_hash_bits(4);
    let _call = crate::util::in_call("migrate()");
    let result = catch_unwind(AssertUnwindSafe(|| feoxdb::migrate(opts)));
    drop(_call);
    Session::uninstall();
    let result = match result {
        Ok(r) => r,
        Err(p) => {
            problems.push(format!("C15: migrate() panicked: {}", crate::sut::panic_text(p)));
            return Outcome { problems, migrated_ok: false };
        }
    };
    if !replaced.load(Ordering::SeqCst) {
        return Outcome { problems, migrated_ok: result.is_ok() };
    }
    match result {
        Err(_) => {
            if dst.exists() {
                problems.push(format!("C15: migrate() failed after its temporary file was replaced (at {point}) but left a file at the destination path"));
            }
        }
        Ok(report) => {
            // success is only acceptable if what was published is what was verified
            let copy = dir.join("source-copy.feox");
            std::fs::write(&copy, image).unwrap();
            let want = open_contents(&copy, false, false);
            let got = open_contents(&dst, false, false);
            match (&want, &got) {
                (Ok(w), Ok(g)) if w == g && report.records == w.len() as u64 => {}
                (Ok(w), Ok(g)) => problems.push(format!(
                    "C15: migrate() returned Ok({} records) after its temporary file was replaced by another file (at {point}), and the published destination holds {:?} while a recovery of the source yields {:?}: an unverified file was published",
                    report.records,
                    brief(g),
                    brief(w)
                )),
                (_, Err(e)) => problems.push(format!("C15: migrate() returned Ok after its temporary file was replaced (at {point}) but the destination cannot be read: {e}")),
                (Err(e), _) => problems.push(format!("C15: source recovery failed: {e}")),
            }
        }
    }
    Outcome { problems, migrated_ok: false }
}

/// `dest_appears`: instead of modifying the source, the interfering party creates a file
/// of its own at the destination path (without overwriting anything) at that point.
fn run_case_with(dir: &Path, image: &[u8], allow: bool, dest_exists: bool, interfere: Option<&'static str>, dest_appears: bool) -> Outcome {
    let mut problems = Vec::new();
    let _ = std::fs::remove_dir_all(dir);
    std::fs::create_dir_all(dir).unwrap();
    let src = dir.join("source.feox");
    let dst = dir.join("dest.feox");
    std::fs::write(&src, image).unwrap();
    let existing = b"an existing file that must not be touched".to_vec();
    if dest_exists {
        std::fs::write(&dst, &existing).unwrap();
    }
    let src_hash = hash128(image);
    let sess = Session::new();
    sess.clock.store(T0, Ordering::SeqCst);
    sess.set_flag(crate::session::F_NO_URING, true);
    let foreign = b"a file somebody else created at the destination path while migrate() ran".to_vec();
    let foreign_created = std::sync::Arc::new(std::sync::atomic::AtomicBool::new(false));
    if let (Some(point), true) = (interfere, dest_appears) {
        let dst2 = dst.clone();
        let foreign2 = foreign.clone();
        let created = foreign_created.clone();
        *sess.point_cb.lock() = Some(Box::new(move |name| {
            if name == point {
                use std::io::Write;
                if let Ok(mut f) = std::fs::OpenOptions::new().write(true).create_new(true).open(&dst2) {
                    let _ = f.write_all(&foreign2);
                    let _ = f.sync_all();
                    created.store(true, Ordering::SeqCst);
                }
            }
        }));
    } else if let Some(point) = interfere {
        let src2 = src.clone();
        *sess.point_cb.lock() = Some(Box::new(move |name| {
            if name == point {
                // the source is modified by someone else: one byte in a free block changes
                use std::io::{Seek, SeekFrom, Write};
                if let Ok(mut f) = std::fs::OpenOptions::new().write(true).open(&src2) {
                    let _ = f.seek(SeekFrom::Start(39 * BLOCK as u64 + 100));
                    let _ = f.write_all(&[0x5a]);
                    let _ = f.sync_all();
                }
                // make sure the modification time moves even on coarse clocks
                std::thread::sleep(std::time::Duration::from_millis(15));
                if let Ok(mut f) = std::fs::OpenOptions::new().write(true).open(&src2) {
                    let _ = f.seek(SeekFrom::Start(39 * BLOCK as u64 + 101));
                    let _ = f.write_all(&[0x5b]);
                    let _ = f.sync_all();
                }
            }
        }));
    }
    sess.install();
    let opts = feoxdb::MigrationOptions::new(&src, &dst).allow_ambiguous_legacy_recovery(allow).verif_hash_bits(4);
    let _call = crate::util::in_call("migrate()");
    let result = catch_unwind(AssertUnwindSafe(|| feoxdb::migrate(opts)));
    drop(_call);
    Session::uninstall();
    let result = match result {
        Ok(r) => r,
        Err(p) => {
            problems.push(format!("C15: migrate() panicked: {}", crate::sut::panic_text(p)));
            return Outcome { problems, migrated_ok: false };
        }
    };
    if dest_appears {
        let after = std::fs::read(&src).map(|b| hash128(&b)).unwrap_or(0);
        if after != src_hash {
            problems.push("C15: migrate() changed the source file's bytes".into());
        }
        if !temp_siblings(&dst).is_empty() {
            problems.push("C15: temporary file left behind".into());
        }
        if foreign_created.load(Ordering::SeqCst) {
            // the path was free when the other party created its file: that file is not ours to touch
            match std::fs::read(&dst) {
                Ok(b) if b == foreign => {}
                Ok(_) => problems.push(format!("C15: a file another party created at the destination path (at {}) was overwritten or replaced", interfere.unwrap())),
                Err(_) => problems.push(format!("C15: a file another party created at the destination path (at {}) was deleted by migrate()", interfere.unwrap())),
            }
            if result.is_ok() {
                problems.push(format!("C15: migrate() reported success although the destination path was taken by another party (at {})", interfere.unwrap()));
            }
            return Outcome { problems, migrated_ok: false };
        }
        // the path was already occupied by the published store: nothing was interfered with
    }
    // the source is never written to by migrate()
    if interfere.is_none() {
        let after = std::fs::read(&src).map(|b| hash128(&b)).unwrap_or(0);
        if after != src_hash {
            problems.push("C15: migrate() changed the source file's bytes".into());
        }
    }
    let leftovers = temp_siblings(&dst);
    if !leftovers.is_empty() {
        problems.push(format!("C15: temporary file {:?} left behind", leftovers[0].file_name().unwrap()));
    }
    if dest_exists {
        if result.is_ok() {
            problems.push("C15: migrate() reported success although the destination already existed".into());
        }
        if std::fs::read(&dst).ok().as_ref() != Some(&existing) {
            problems.push("C15: an existing destination file was modified or replaced".into());
        }
        return Outcome { problems, migrated_ok: false };
    }
    match result {
        Err(e) => {
            if dst.exists() {
                problems.push(format!("C15: migrate() failed ({e}) but left a file at the destination path"));
            }
            Outcome { problems, migrated_ok: false }
        }
        Ok(report) => {
            // a change after the last re-check of the source (just before publication) cannot be noticed
            if interfere.is_some() && !dest_appears && !matches!(interfere, Some("mig_before_publish" | "mig_published")) {
                problems.push(format!(
                    "C15: the source changed while migrate() ran (at {}) but it reported success",
                    interfere.unwrap()
                ));
            }
            // what a recovery of the source yields (on a copy, TTL off, same opt-in)
            let copy = dir.join("source-copy.feox");
            std::fs::write(&copy, image).unwrap();
            let want = open_contents(&copy, false, allow);
            let got = open_contents(&dst, false, false);
            let dst_bytes = std::fs::read(&dst).unwrap_or_default();
            let dec = l::decode(&dst_bytes);
            match (&want, &got) {
                (Ok(w), Ok(g)) => {
                    if w != g {
                        problems.push(format!(
                            "C15: migrated store holds {:?} but a recovery of the source yields {:?}",
                            brief(g),
                            brief(w)
                        ));
                    }
                    if report.records != w.len() as u64 {
                        problems.push(format!("C15: report says {} records, source recovery has {}", report.records, w.len()));
                    }
                    let live: Contents = dec.live().into_iter().map(|(k, r)| (k, (r.rec.value, r.rec.timestamp, r.rec.expiry))).collect();
                    if &live != w {
                        problems.push(format!(
                            "C15: an independent reader finds {:?} in the destination file, source recovery yields {:?}",
                            brief(&live),
                            brief(w)
                        ));
                    }
                }
                (Err(e), _) => problems.push(format!("C15: migrate() succeeded on a source whose recovery fails with {e}")),
                (_, Err(e)) => problems.push(format!("C15: the migrated destination cannot be opened / read: {e}")),
            }
            if dec.meta.as_ref().map(|m| m.version) != Some(3) {
                problems.push("C15: the destination is not a v3 device".into());
            }
            Outcome { problems, migrated_ok: true }
        }
    }
}

fn brief(c: &Contents) -> Vec<String> {
    c.iter().map(|(k, (v, ts, e))| format!("{}={}@{}/{}", show(k), show(v), ts, e)).collect()
}

pub fn check(tier: &str, budget_s: f64, report: &mut Report) {
    let thorough = tier == "thorough";
    let dl = Deadline::new(budget_s);
    let threads = crate::util::worker_threads();
    let root = scratch_root().join("c15");
    let _ = std::fs::create_dir_all(&root);
    // ---- (a) exhaustive synthesis: all sequences of <= max_len items
    let max_len = if thorough { 4 } else { 3 };
    let mut seqs: Vec<Vec<Item>> = vec![vec![]];
    let mut frontier: Vec<Vec<Item>> = vec![vec![]];
    for _ in 0..max_len {
        let mut next = Vec::new();
        for s in &frontier {
            for it in ITEMS {
                // a journal marker needs something after it; duplicates of the same item add nothing
                if s.last() == Some(&it) && matches!(it, Item::Gap | Item::JournalOne) {
                    continue;
                }
                let mut n = s.clone();
                n.push(it);
                next.push(n);
            }
        }
        seqs.extend(next.iter().cloned());
        frontier = next;
    }
    let mut images: Vec<(String, Vec<u8>)> = Vec::new();
    let mut seen_img: HashSet<u128> = HashSet::new();
    for version in [1u32, 2] {
        for s in &seqs {
            if version == 1 && s.contains(&Item::ExpiredWin) {
                continue;
            }
            let img = synth(version, s);
            if seen_img.insert(hash128(&img)) {
                images.push((format!("synth-v{version}:{s:?}"), img));
            }
        }
    }
    // ---- (a') more records than one scan batch / flush threshold, neighbouring keys related by prefix
    let counts: Vec<usize> = if thorough { vec![255, 256, 257, 300, 511, 512, 513, 600, 1025, 4095, 4096, 4097, 4200, 8200] } else { vec![255, 256, 257, 300, 513, 4097] };
    let mut many = 0usize;
    for version in [1u32, 2] {
        for &n in &counts {
            for (fam, keys) in many_key_families(n) {
                // long chains are only needed around the scan batch; the flush threshold gets short keys
                if n > 700 && fam != "fixed" && fam != "numbers" {
                    continue;
                }
                // written in ascending and in descending block order (scan order is not key order)
                for rev in [false, true] {
                    let mut ks = keys.clone();
                    if rev {
                        ks.reverse();
                    }
                    if n > 700 && rev {
                        continue;
                    }
                    images.push((format!("many-v{version}:{fam}:{n}{}", if rev { ":reversed" } else { "" }), synth_many(version, &ks)));
                    many += 1;
                }
            }
        }
    }
    let synthesised = images.len();
    // ---- (b) images of real legacy workloads, including crash images
    let collected: Mutex<Vec<(String, Vec<u8>)>> = Mutex::new(Vec::new());
    let seen2: Mutex<HashSet<u128>> = Mutex::new(HashSet::new());
    for name in ["crash-core-v2", "crash-edge-v1"] {
        let Some(mut s) = suites::crash_suites(false).into_iter().find(|s| s.name == name) else { continue };
        s.depth = if thorough { 4 } else { 3 };
        let on_path = |s: &Suite, hist: &[u16], po: &PathOutcome| {
            let Some(base) = po.image.as_ref() else { return };
            if po.violation.is_some() {
                return;
            }
            let ops_desc = seq::describe_hist(s, hist).join(";");
            let from = po.log.iter().rposition(|e| matches!(e, crate::session::IoEv::Mark(1, _))).unwrap_or(0);
            crash::enumerate(base, &po.log, from, false, |img, d| {
                if seen2.lock().unwrap().insert(hash128(img)) {
                    let mut c = collected.lock().unwrap();
                    if c.len() < 20000 {
                        c.push((format!("{}:{ops_desc}:{d:?}", s.name), img.to_vec()));
                    }
                }
                true
            });
        };
        let sub = Deadline::new(budget_s * 0.15);
        let _ = seq::explore(&s, &sub, threads, Some(&on_path));
    }
    let mut real = collected.into_inner().unwrap();
    real.sort_by(|a, b| a.0.cmp(&b.0));
    let real_n = real.len();
    images.extend(real);

    // ---- cases: image × opt-in × destination present
    let evals = AtomicU64::new(0);
    let migrated = AtomicU64::new(0);
    let refused = AtomicU64::new(0);
    let bad: Mutex<Vec<(String, String)>> = Mutex::new(Vec::new());
    let stop = AtomicBool::new(false);
    let images = Arc::new(images);
    let mut work: Vec<(usize, bool, bool)> = (0..images.len()).flat_map(|i| [(i, false, false), (i, true, false), (i, false, true)]).collect();
    // the many-record sources are about paging, not about the opt-in or the destination: one case each, first
    work.retain(|(i, allow, dest)| !images[*i].0.starts_with("many-") || (!*allow && !*dest));
    work.sort_by_key(|(i, _, _)| !images[*i].0.starts_with("many-"));
    let n_work = work.len();
    let done = AtomicU64::new(0);
    par_for_each(work, threads, &stop, |t, (i, allow, dest_exists)| {
        if dl.expired() {
            stop.store(true, Ordering::Relaxed);
            return;
        }
        let (name, img) = &images[i];
        let dir = root.join(format!("t{t}"));
        let t0 = std::time::Instant::now();
        let o = run_case(&dir, img, allow, dest_exists, None);
        if t0.elapsed().as_millis() > 100 && std::env::var_os("VERIF_C15_SLOW").is_some() {
            eprintln!("slow case {:?}: {name} allow={allow} dest_exists={dest_exists}", t0.elapsed());
        }
        evals.fetch_add(1, Ordering::Relaxed);
        done.fetch_add(1, Ordering::Relaxed);
        if o.migrated_ok {
            migrated.fetch_add(1, Ordering::Relaxed);
        } else {
            refused.fetch_add(1, Ordering::Relaxed);
        }
        for p in o.problems {
            let mut b = bad.lock().unwrap();
            if b.len() < 40 {
                b.push((format!("{name} allow={allow} dest_exists={dest_exists}"), p));
            }
        }
    });
    // ---- environment interference at every point of migrate(), on a handful of migratable images
    let points: [&'static str; 6] = ["mig_source_open", "mig_destination_open", "mig_copied", "mig_verified", "mig_before_publish", "mig_published"];
    let mut interfered = 0u64;
    for (name, img) in images.iter().filter(|(n, _)| n.contains("[Rec1, Rec2") || n.contains("[Rec2]") || n.contains("[NewerDup, Rec1")).take(6) {
        for p in points {
            let dir = root.join("interfere");
            let o = run_case(&dir, img, false, false, Some(p));
            interfered += 1;
            evals.fetch_add(1, Ordering::Relaxed);
            for pr in o.problems {
                bad.lock().unwrap().push((format!("{name} source modified at {p}"), pr));
            }
            let o = run_case_with(&dir, img, false, false, Some(p), true);
            interfered += 1;
            evals.fetch_add(1, Ordering::Relaxed);
            for pr in o.problems {
                bad.lock().unwrap().push((format!("{name} destination path taken by another party at {p}"), pr));
            }
            let o = run_case_temp_replaced(&dir, img, p);
            interfered += 1;
            evals.fetch_add(1, Ordering::Relaxed);
            for pr in o.problems {
                bad.lock().unwrap().push((format!("{name} temporary file replaced by another party at {p}"), pr));
            }
        }
    }
    let _ = std::fs::remove_dir_all(&root);
    let mut bad = bad.into_inner().unwrap();
    bad.sort_by_key(|b| b.0.len());
    for (case, msg) in bad.into_iter().take(8) {
        report.violation(
            format!("mig|{}|{}", case.chars().take(140).collect::<String>(), msg.chars().take(100).collect::<String>()),
            format!("case {case}\n{msg}"),
            json!({"engine":"c15","case":case}),
        );
    }
    let n = evals.load(Ordering::Relaxed);
    report.add("evaluations", n);
    report.add("distinct_nontrivial", images.len() as u64);
    report.set("rule", "one evaluation = migrate() of one distinct legacy image under one (opt-in, destination present) combination, or with the source modified at one named point of migrate(); distinct_nontrivial = distinct image contents (synthesised item sequences + crash images of real v1/v2 workloads)");
    report.set("synthesised_images", synthesised);
    report.set("many_record_sources", many);
    report.set("images_from_real_legacy_workloads", real_n);
    report.set("migrations_succeeded", migrated.load(Ordering::Relaxed));
    report.set("migrations_refused", refused.load(Ordering::Relaxed));
    report.set("interference_cases", interfered);
    report.set("item_sequence_max_len", max_len);
    report.set("exhaustive", done.load(Ordering::Relaxed) as usize == n_work);
    report.sample(json!({"image": images[images.len() / 3].0, "cases": ["opt-in off", "opt-in on", "destination exists"]}));
    report.sample(json!({"image": images[images.len() - 1].0}));
    report.assumptions.push("multi-batch paths (256-record scan batches, 4096-record flush threshold) are covered by the listed record counts and key families only".into());
}

/// Debug aid: time one synthesised case.
pub fn debug_one(version: u32, grown: bool) -> i32 {
    let items: Vec<Item> = if grown { vec![Item::Rec1, Item::Grown, Item::Rec2] } else { vec![Item::Rec1, Item::Rec2] };
    let img = synth(version, &items);
    let dir = scratch_root().join("c15-debug");
    for _ in 0..3 {
        let t = std::time::Instant::now();
        let o = run_case(&dir, &img, false, false, None);
        println!("v{version} grown={grown}: {:?} migrated_ok={} problems={:?}", t.elapsed(), o.migrated_ok, o.problems);
    }
    0
}
