//! C02/C03 supplement: one deterministic history whose second flush writes a batch of
//! more than 507 extents, so that the allocation-intent journal image spans two
//! blocks. Every crash image of the epochs that contain a journal-area write is
//! enumerated (torn multi-block journal writes), plus the batch epoch's prefixes.

use crate::crash::{self, CrashOpts, Obligations};
use crate::model::Model;
use crate::session::IoEv;
use crate::sut::{Cfg, Op, Out, Sut, Tables, T0};
use crate::util::Report;
use serde_json::json;
use std::collections::HashSet;
use std::sync::Mutex;

pub fn run(accept: &[&str], report: &mut Report) {
    let first = 40usize;
    let second = 520usize;
    let mut cfg = Cfg::persistent(1300);
    cfg.cache = false;
    let mut t = Tables::default();
    for i in 0..first + second {
        t.keys.push(format!("key-{i:04}").into_bytes());
    }
    t.values = vec![b"first batch".to_vec(), b"second batch".to_vec()];
    t.bounds = vec![b"".to_vec(), vec![0xff; 4]];
    let (mut sut, base) = match Sut::create_logged(cfg, "bigbatch", true) {
        Ok(x) => x,
        Err(e) => {
            report.machinery(e);
            return;
        }
    };
    let mut ops: Vec<Op> = Vec::new();
    for i in 0..first {
        ops.push(Op::Insert { k: i as u8, v: 0, ts: 0, ttl: 0, bytes: false });
    }
    // key indices exceed u8: apply through the store directly for the big batch
    let mut model = Model::new(cfg, T0);
    let mut outs = Vec::new();
    let mut snapshots = Vec::new();
    let mut all_ops = Vec::new();
    let store = sut.store().clone();
    let mut mark = 0u64;
    let do_insert = |key: &[u8], value: &[u8], model: &mut Model, mark: &mut u64| {
        sut.sess.mark(1, *mark);
        let r = store.insert(key, value);
        let ts = crate::sched::take_thread_timestamp();
        sut.sess.mark(2, *mark);
        *mark += 1;
        if r.is_ok() {
            model.map.insert(key.to_vec(), crate::model::Gen { value: value.to_vec(), ts, expiry: 0 });
        }
        r.is_ok()
    };
    let mut ok = true;
    for i in 0..first {
        ok &= do_insert(&t.keys[i], &t.values[0], &mut model, &mut mark);
        all_ops.push(Op::Insert { k: 0, v: 0, ts: 0, ttl: 0, bytes: false });
        outs.push(Out::Bool(true));
        snapshots.push(model.map.clone());
    }
    let flush = |sut: &Sut, mark: &mut u64| {
        sut.sess.mark(1, *mark);
        let r = sut.store().flush();
        sut.sess.mark(2, *mark);
        *mark += 1;
        r.is_ok()
    };
    ok &= flush(&sut, &mut mark);
    all_ops.push(Op::Flush);
    outs.push(Out::Unit);
    snapshots.push(model.map.clone());
    let second_begin = sut.sess.log_len();
    for i in first..first + second {
        ok &= do_insert(&t.keys[i], &t.values[1], &mut model, &mut mark);
        all_ops.push(Op::Insert { k: 0, v: 1, ts: 0, ttl: 0, bytes: false });
        outs.push(Out::Bool(true));
        snapshots.push(model.map.clone());
    }
    ok &= flush(&sut, &mut mark);
    all_ops.push(Op::Flush);
    outs.push(Out::Unit);
    snapshots.push(model.map.clone());
    if !ok {
        report.machinery("big-batch history could not be executed");
        return;
    }
    drop(do_insert);
    drop(store);
    sut.close();
    let log = sut.sess.take_log();
    let journal_blocks: usize = log
        .iter()
        .filter_map(|e| match e {
            IoEv::W { off, data, .. } if *off >= 4096 && *off < 7 * 4096 => Some(data.len() / 4096),
            _ => None,
        })
        .max()
        .unwrap_or(0);
    if journal_blocks < 2 {
        report.machinery(format!("the big batch did not produce a multi-block journal write (largest {journal_blocks} block)"));
        return;
    }
    let ob = Obligations::from_path(&t.keys, &all_ops, &outs, &snapshots, &log, false, true);
    // Only epochs with a journal-area write in flight are enumerated in full; the
    // 520-block data epoch is covered by its prefixes and single/co-single subsets (cap).
    let seen: Mutex<HashSet<u128>> = Mutex::new(HashSet::new());
    let opts = CrashOpts { sector_tear: false, reopen_cycles: 0, nest: 0, now: T0, probe_auto_ts: false, continue_after: false };
    let mut findings_all = Vec::new();
    let mut images = 0u64;
    let mut recoveries = 0u64;
    let eps = crash::epochs(&log);
    let mut durable = base.clone();
    for (ei, ep) in eps.iter().enumerate() {
        for u in &ep.newly_durable {
            crash::apply_unit(&mut durable, u);
        }
        if ep.end_pos <= second_begin {
            continue;
        }
        let has_journal = ep.inflight.iter().any(|u| u.off >= 4096 && u.off < 7 * 4096);
        if !has_journal || ep.inflight.len() > 10 {
            continue;
        }
        let k = ep.inflight.len();
        for m in 0..(1u32 << k) {
            let mut img = durable.clone();
            for i in 0..k {
                if m >> i & 1 == 1 {
                    crash::apply_unit(&mut img, &ep.inflight[i]);
                }
            }
            images += 1;
            let desc = format!("big batch: epoch {ei} (journal write in flight), landed blocks {:?} of {k}", (0..k).filter(|i| m >> i & 1 == 1).collect::<Vec<_>>());
            let (st, f) = crash::examine_one(&cfg, &ob, ep.end_pos, &img, &desc, &opts, &seen);
            recoveries += st;
            findings_all.extend(f);
        }
    }
    report.add("crash_images_enumerated", images);
    report.add("recoveries_run", recoveries);
    report.add("traces_validated_against_impl", recoveries);
    report.set("big_batch", json!({"first_batch": first, "second_batch": second, "journal_write_blocks": journal_blocks, "images": images}));
    for f in findings_all.into_iter().take(4) {
        if super::accepted(accept, &f.msg) {
            report.violation(
                format!("bigbatch|{}", f.msg.chars().take(140).collect::<String>()),
                format!("history: {first} inserts; flush; {second} inserts; flush\ncrash image {}\n{}", f.desc, f.msg),
                json!({"engine":"bigbatch","image":f.desc}),
            );
        }
    }
}
