//! Per-property checks.

pub mod batchfail;
pub mod bigbatch;
pub mod bigrecovery;
pub mod c06;
pub mod c07;
pub mod c08;
pub mod c09;
pub mod lin;
pub mod schedprops;
pub mod c10;
pub mod c13;
pub mod concprogs;
pub mod c14;
pub mod c15;
pub mod c16;
pub mod c17;
pub mod c19;
pub mod c20;
pub mod crashprops;

use crate::seq::{self, Suite};
use crate::suites;
use crate::sut::{Cfg, Op, Sut};
use crate::util::{finish, worker_threads, Deadline, Report};
use serde_json::json;

pub fn tag_of(msg: &str) -> Option<String> {
    let b = msg.as_bytes();
    for i in 0..b.len().saturating_sub(2) {
        if b[i] == b'C' && b[i + 1].is_ascii_digit() && b[i + 2].is_ascii_digit() && (i == 0 || !b[i - 1].is_ascii_alphanumeric()) {
            return Some(msg[i..i + 3].to_string());
        }
    }
    None
}

/// All property tags mentioned in an oracle message, in order of appearance. A
/// linearizability verdict wraps the sequential oracle's message ("C07: no sequential
/// execution explains ...: C14: ordered index ..."): it belongs to both.
pub fn tags_of(msg: &str) -> Vec<String> {
    let b = msg.as_bytes();
    let mut v: Vec<String> = Vec::new();
    for i in 0..b.len().saturating_sub(3) {
        if b[i] == b'C' && b[i + 1].is_ascii_digit() && b[i + 2].is_ascii_digit() && b[i + 3] == b':' && (i == 0 || !b[i - 1].is_ascii_alphanumeric()) {
            let t = msg[i..i + 3].to_string();
            if !v.contains(&t) {
                v.push(t);
            }
        }
    }
    v
}

/// Does the message report a violation of one of the accepted properties?
pub fn accepted(accept: &[&str], msg: &str) -> bool {
    // which key sizes a device accepts is part of its on-disk format: the sequential
    // oracle's "InvalidKeySize expected / not expected" verdicts belong to C10 as well
    if accept.contains(&"C10") && msg.contains("InvalidKeySize") {
        return true;
    }
    let tags = tags_of(msg);
    if tags.is_empty() {
        return tag_of(msg).is_some_and(|t| accept.contains(&t.as_str()));
    }
    tags.iter().any(|t| accept.contains(&t.as_str()))
}

/// Run SEQ suites for one property. Violations are attributed by the tag the oracle
/// put in the message; tags not in `tags` are recorded as foreign (they belong to
/// another property's check, which runs the same oracle).
pub fn seq_check(prop: &str, tier: &str, suites: Vec<Suite>, tags: &[&str], budget_s: f64, report: &mut Report) {
    let threads = worker_threads();
    let total = Deadline::new(budget_s);
    let n = suites.len();
    let mut per_suite = serde_json::Map::new();
    let mut all_complete = true;
    let mut foreign = 0u64;
    for (i, s) in suites.iter().enumerate() {
        let remaining = (budget_s - total.elapsed()).max(1.0);
        let share = remaining / (n - i) as f64;
        let dl = Deadline::new(share);
        let r = seq::explore(s, &dl, threads, None);
        report.add("states", r.states);
        report.add("transitions", r.transitions);
        report.add("traces_validated_against_impl", r.transitions);
        report.add("distinct_outcome_vectors", r.distinct_outcomes);
        per_suite.insert(
            s.name.clone(),
            json!({
                "config": s.cfg.name(),
                "alphabet": s.ops.len(),
                "depth_bound": s.depth,
                "depth_completed": r.max_depth_completed,
                "complete": r.complete,
                "states": r.states,
                "transitions": r.transitions,
                "cells": r.cells,
                "observations": r.observations,
                "wall_s": dl.elapsed(),
            }),
        );
        if !r.complete {
            all_complete = false;
            if r.max_depth_completed < s.uncapped_levels {
                report.machinery(format!("suite {} stopped before depth {} completed", s.name, s.uncapped_levels));
            }
        }
        for m in r.machinery {
            report.machinery(format!("[{}] {m}", s.name));
        }
        for sm in r.samples {
            report.sample(sm);
        }
        for (hist, msg) in r.violations {
            let tag = tag_of(&msg).unwrap_or_else(|| prop.to_string());
            if accepted(tags, &msg) || tags.contains(&tag.as_str()) || tag == "C17" || tag == "C20" {
                let sig = format!("{}|{}|{}", s.name, seq::describe_hist(s, &hist).join(";"), first_line(&msg));
                report.violation(sig, format!("suite {} history {:?}\n{msg}", s.name, seq::describe_hist(s, &hist)), seq::replay_value(s, &hist));
            } else {
                foreign += 1;
            }
        }
    }
    report.merge_map("suites", per_suite);
    report.set("exhaustive", all_complete);
    report.set("foreign_violations_seen", foreign);
    report.set(
        "explanation",
        "breadth-first search over call sequences; every transition executed on a fresh real store by replaying its history; \
         reference model stepped in lock-step; structural dump + full read-back after every transition; states deduplicated on a \
         canonical key of the implementation state",
    );
    let _ = tier;
}

fn first_line(s: &str) -> String {
    s.lines().next().unwrap_or("").chars().take(160).collect()
}

pub fn pick(names: &[&str], thorough: bool) -> Vec<Suite> {
    let all = suites::all_suites(thorough);
    names.iter().filter_map(|n| all.iter().find(|s| s.name == *n).cloned()).collect()
}

pub fn run_check(prop: &str, tier: &str) -> i32 {
    let thorough = tier == "thorough";
    let budget = if thorough { 900.0 } else { 52.0 };
    let mut report = Report::new(prop, tier, "model_checking");
    crate::util::start_watchdog(prop, tier, 30);
    match prop {
        "C01" => {
            let mut s = suites::all_suites(thorough);
            // (in this check the deep tiny-device TTL suites are time-capped from level 6 on; the C08 check
            // keeps their full floor)
            s.extend(suites::full_ttl_suites(thorough).into_iter().map(|mut x| {
                x.uncapped_levels = x.uncapped_levels.min(5);
                x
            }));
            s.sort_by_key(|x| (x.name.starts_with("focus"), x.cfg.persistent));
            // range results of a sequential history are part of the C01 statement (the model words them as C14)
            // ... and so is an automatic write the store refuses as older (worded as C12)
            seq_check(prop, tier, s, &["C01", "C14", "C12"], budget, &mut report);
        }
        "C02" => {
            let s = suites::crash_suites(thorough);
            let plan = crashprops::CrashPlan { crash: true, layout_tag: "C10", nest: 0, reopen_cycles: 0, sector_tear: true, layout: false, probe_auto_ts: false, continue_after: true };
            crashprops::crash_check(prop, s, &["C02", "C11"], plan, budget * 0.35, &mut report);
            // the overwrite / reuse chains on tiny devices once more without sector tearing: deeper
            let deep: Vec<Suite> = suites::crash_suites(thorough).into_iter().filter(|s| ["crash-full4-v3", "crash-small-v3", "crash-reuse-v3", "crash-ttl-reuse-v3"].contains(&s.name.as_str())).collect();
            let plan = crashprops::CrashPlan { crash: true, layout_tag: "C10", nest: 0, reopen_cycles: 0, sector_tear: false, layout: false, probe_auto_ts: false, continue_after: true };
            crashprops::crash_check("C02-deep", deep, &["C02", "C11"], plan, budget * 0.2, &mut report);
            // acknowledged flushes on legacy-format devices with records at the block boundaries:
            // an independent reader must find the live contents in the file at every acknowledgement
            let edge: Vec<Suite> = suites::partition_suites(thorough).into_iter().filter(|s| s.name.starts_with("part-edge")).collect();
            let plan = crashprops::CrashPlan { crash: false, layout_tag: "C02", nest: 0, reopen_cycles: 0, sector_tear: false, layout: true, probe_auto_ts: false, continue_after: false };
            crashprops::crash_check(prop, edge, &["C02"], plan, budget * 0.08, &mut report);
            // one history with a >507-extent batch: torn multi-block journal writes
            bigbatch::run(&["C02", "C03"], &mut report);
            // flush acknowledgements racing the background flusher, every schedule within the bound
            let cache = std::sync::Mutex::new(std::collections::HashMap::new());
            let judge = |p: &schedprops::Program, ex: &schedprops::Exec| schedprops::judge_acknowledged(p, ex, &cache);
            let mut acks = c08::ack_programs();
            // ... and a clean close (the last handle dropped inside the controlled phase)
            acks.extend(c08::close_programs(thorough));
            schedprops::run_programs(acks, if thorough { 3 } else { 2 }, 4000, budget * 0.3, &judge, None, &["C02", "C03"], &mut report);
            // more than one journal-sized batch behind a batch that fails, then a device that works again:
            // nothing that was accepted may be missing from (or back in) the synced image
            if report.violations.is_empty() {
                c19::failed_backlog_for(&mut report, "C02");
            }
        }
        "C03" => {
            let s = suites::crash_suites(thorough);
            let plan = crashprops::CrashPlan { crash: true, layout_tag: "C10", nest: 0, reopen_cycles: 0, sector_tear: true, layout: false, probe_auto_ts: false, continue_after: false };
            crashprops::crash_check(prop, s, &["C03"], plan, budget * 0.35, &mut report);
            // the same suites without sector tearing go deeper; most of the time goes to the
            // overwrite / reuse chains on tiny devices (see `suite_weight`)
            let s = suites::crash_suites(thorough);
            let plan = crashprops::CrashPlan { crash: true, layout_tag: "C10", nest: 0, reopen_cycles: 0, sector_tear: false, layout: false, probe_auto_ts: false, continue_after: false };
            crashprops::crash_check("C03-deep", s, &["C03"], plan, budget * 0.25, &mut report);
            // a crash inside recovery's own repair writes is a crash instant too: nested images
            let s = suites::crash_suites(thorough);
            let plan = crashprops::CrashPlan { crash: true, layout_tag: "C10", nest: if thorough { 2 } else { 1 }, reopen_cycles: 0, sector_tear: false, layout: false, probe_auto_ts: false, continue_after: false };
            crashprops::crash_check(prop, s, &["C03"], plan, budget * 0.25, &mut report);
            // "... not older than the last acknowledged one" under schedules: crash images of flush
            // acknowledgements racing the background flusher. A key the reopened store EXPOSES with a
            // generation older than the acknowledged one is this property's business (a key that is
            // missing altogether is C02's alone).
            let cache = std::sync::Mutex::new(std::collections::HashMap::new());
            let judge = |p: &schedprops::Program, ex: &schedprops::Exec| -> Vec<String> {
                schedprops::judge_acknowledged(p, ex, &cache)
                    .into_iter()
                    .map(|m| if m.starts_with("C02:") && m.contains("recovered as (value") { format!("C03: an exposed key carries a generation older than the last acknowledged one - {m}") } else { m })
                    .collect()
            };
            schedprops::run_programs(c08::ack_programs(), if thorough { 3 } else { 2 }, 4000, budget * 0.15, &judge, None, &["C03"], &mut report);
        }
        "C04" => {
            let s = suites::crash_suites(thorough);
            let plan = crashprops::CrashPlan { crash: true, layout_tag: "C10", nest: if thorough { 2 } else { 1 }, reopen_cycles: if thorough { 2 } else { 1 }, sector_tear: false, layout: false, probe_auto_ts: false, continue_after: false };
            crashprops::crash_check(prop, s, &["C04"], plan, budget * 0.9, &mut report);
            // recovery that needs more than one journal record for its own retirements
            bigrecovery::run(&["C04"], &mut report);
        }
        "C05" => {
            // (1) deep histories, partition + independent-reader check at every acknowledged flush
            let mut deep = suites::partition_suites(thorough);
            let plan = crashprops::CrashPlan { crash: false, layout_tag: "C05", nest: 0, reopen_cycles: 0, sector_tear: false, layout: true, probe_auto_ts: false, continue_after: false };
            let (large, rest): (Vec<Suite>, Vec<Suite>) = std::mem::take(&mut deep).into_iter().partition(|s| s.name.starts_with("part-large"));
            crashprops::crash_check(prop, rest, &["C05"], plan, budget * 0.3, &mut report);
            // on the roomy device a key that is lost or unreadable after a clean reopen is damage to
            // stored bytes: the sequential oracle's verdicts count (on the tiny devices a close that
            // cannot flush legitimately loses unflushed writes, which the reference model does not follow)
            let plan = crashprops::CrashPlan { crash: false, layout_tag: "C05", nest: 0, reopen_cycles: 0, sector_tear: false, layout: true, probe_auto_ts: false, continue_after: false };
            crashprops::crash_check(prop, large, &["C05", "C01"], plan, budget * 0.1, &mut report);
            // (2) the same invariants on every store recovered from a crash image
            let s = suites::crash_suites(thorough);
            let plan = crashprops::CrashPlan { crash: true, layout_tag: "C05", nest: 0, reopen_cycles: 0, sector_tear: false, layout: true, probe_auto_ts: false, continue_after: false };
            crashprops::crash_check(prop, s, &["C05"], plan, budget * 0.25, &mut report);
            // (3) the partition at quiescence after every schedule of the reader/writer/flush/reuse programs
            let mut progs = c08::programs(false);
            // ... and the persisted counters once every thread's own flush() has returned
            progs.extend(c08::ack_programs().into_iter().filter(|p| p.threads.iter().all(|t| matches!(t.last(), Some(crate::sut::Op::Flush)))));
            progs.reverse();
            schedprops::run_programs(progs, 1, 4000, budget * 0.15, &schedprops::judge_linearizable, None, &["C05"], &mut report);
            // (4) batches that fail half-way (no room for the last record / record writes fail), the retry, the refill
            if report.violations.is_empty() {
                batchfail::run(&["C05"], thorough, &mut report);
            }
            // (5) extents of hundreds of blocks retired with live neighbours directly behind them
            if report.violations.is_empty() {
                batchfail::run_large_family(&["C05"], thorough, &mut report);
            }
        }
        "C07" => {
            let bound = if thorough { 3 } else { 2 };
            let mut progs = c07::programs(Cfg::memory(), thorough);
            let mut disk = Cfg::persistent(24);
            disk.cache = true;
            progs.extend(c07::programs(disk, thorough));
            schedprops::run_programs(progs, bound, 3000, budget, &schedprops::judge_linearizable, None, &["C07", "C20"], &mut report);
            if report.violations.is_empty() {
                c13::clock_supplement(&mut report, if thorough { 20.0 } else { 3.0 });
            }
            report.set("explanation", "deviation-bounded depth-first exploration of all schedules of each program under a controlled scheduler over real threads (one runs at a time, switches only at hook points); every complete execution's call/return history is checked by brute-force linearization against the LWW model with the two permitted refusals");
        }
        "C08" => {
            let bound = if thorough { 3 } else { 2 };
            let progs = c08::programs(thorough);
            schedprops::run_programs(progs, bound, 4000, budget * 0.8, &schedprops::judge_linearizable, None, &["C08", "C07", "C14", "C20"], &mut report);
            // sequential histories of TTL-only rewrites on a full device: without concurrency StaleExtent is never admissible
            let mut seqs = suites::full_ttl_suites(thorough);
            // legacy-format records at the block boundaries, values read back from the device (cache off)
            for mut s in suites::partition_suites(thorough).into_iter().filter(|s| s.name == "part-edge-v1" || s.name == "part-edge-v2" || s.name == "part-three4-v3") {
                s.cfg.cache = false;
                s.log_io = false;
                s.readback = true;
                s.name = format!("{}-nocache", s.name);
                seqs.push(s);
            }
            seq_check(prop, tier, seqs, &["C08", "C01"], budget * 0.2, &mut report);
            // batches that fail half-way, the retry, the refill: every key must read back its own bytes
            if report.violations.is_empty() {
                batchfail::run(&["C08"], thorough, &mut report);
                batchfail::run_large_family(&["C08"], thorough, &mut report);
            }
            // labelled sampling supplement: racing overwrites, then scan vs point read at quiescence
            if report.violations.is_empty() {
                c14::stress_supplement(&mut report, if thorough { 10.0 } else { 2.5 });
            }
            report.set("explanation", "controlled scheduler over application threads, the flush worker and the periodic coordinator of a real persistent store on 3-6 block devices; every read result is checked by linearization against the model (StaleExtent permitted only under a concurrent rewrite) and an I/O monitor fails the run if a device write intersects an extent a reader still holds");
        }
        "C17" => {
            report.level = "exploration";
            c17::check(tier, budget, &mut report);
        }
        "C18" => {
            schedprops::STUCK_IS_A_VERDICT.store(true, std::sync::atomic::Ordering::Relaxed);
            let bound = if thorough { 3 } else { 2 };
            let mut progs = c08::contention_programs(thorough);
            progs.extend(c08::programs(false).into_iter().step_by(5));
            schedprops::run_programs(progs, bound, 4000, budget * 0.8, &schedprops::judge_linearizable, None, &["C18"], &mut report);
            // every call of deep sequential histories on (nearly) full devices, under the call watchdog
            let small: Vec<Suite> = suites::partition_suites(thorough).into_iter().filter(|s| s.name.starts_with("part-small")).map(|mut s| { s.log_io = false; s }).collect();
            seq_check(prop, tier, small, &["C18"], budget * 0.15, &mut report);
            // the read cache takes its bucket locks itself: every cache call of the narrow-band histories
            // (growth in place past the high mark) runs under the call watchdog as well
            c16::run_fsm_narrow(tier, budget * 0.05, &mut report);
            // batches that fail half-way and their retries (calls on full / failing devices) under the watchdog
            if report.violations.is_empty() {
                batchfail::run(&["C18"], thorough, &mut report);
                // closing a store whose device keeps failing (record writes only / every write / fsyncs), 1 and 2 workers
                batchfail::run_close_on_failing_device(&mut report);
            }
            report.set("explanation", "termination oracle: an execution must end with every thread finished within the decision horizon; 'no enabled thread' is a deadlock, the horizon a livelock; contention programs cover concurrent flush callers, flush vs periodic tick, full device, reader held inside a read");
        }
        "C09" => {
            report.level = "fault_enumeration";
            c09::check(tier, budget * 0.55, &mut report);
            // the io_uring batch path: deviations on the submission / completion seam
            c09::check_uring(budget * 0.25, false, &mut report);
            // flush acknowledgements racing the background flusher while record writes fail:
            // "flush() returns Ok only if everything accepted before it is really durable"
            let cache = std::sync::Mutex::new(std::collections::HashMap::new());
            let judge = |p: &schedprops::Program, ex: &schedprops::Exec| schedprops::judge_acknowledged(p, ex, &cache);
            schedprops::run_programs(c08::ack_fault_programs(), if thorough { 3 } else { 2 }, 4000, budget * 0.2, &judge, None, &["C09", "C02", "C03"], &mut report);
            // a shard backlog longer than one journal-sized batch behind a failing batch
            if report.violations.is_empty() {
                c19::failed_backlog_for_c09(&mut report);
            }
            // batches of 2..4 records whose writes fail three times, the retry, the refill
            if report.violations.is_empty() {
                batchfail::run(&["C09"], thorough, &mut report);
            }
        }
        "C19" => {
            c19::check(tier, budget * 0.5, &mut report);
            // writers racing the coordinator's round under the controlled scheduler
            let bound = if thorough { 3 } else { 2 };
            schedprops::run_programs(c08::write_behind_programs(), bound, 4000, budget * 0.5, &schedprops::judge_linearizable, None, &["C19"], &mut report);
        }
        "C20" => {
            c20::check(tier, budget, &mut report);
        }
        "C10" => {
            let deep = suites::layout_suites(thorough);
            let plan = crashprops::CrashPlan { crash: false, layout_tag: "C10", nest: 0, reopen_cycles: 0, sector_tear: false, layout: true, probe_auto_ts: false, continue_after: false };
            crashprops::crash_check(prop, deep, &["C10"], plan, budget * 0.85, &mut report);
            c10::run(&mut report);
            // concurrent flush callers: once every thread's flush() has returned, the file as it stands
            // (before the harness flushes anything itself) must carry metadata with the live totals
            let pairs: Vec<schedprops::Program> = c08::ack_programs().into_iter().filter(|p| p.threads.iter().all(|t| matches!(t.last(), Some(crate::sut::Op::Flush)))).collect();
            schedprops::run_programs(pairs, if thorough { 3 } else { 2 }, 4000, budget * 0.15, &schedprops::judge_linearizable, None, &["C10"], &mut report);
        }
        "C06" => c06::run(tier, &mut report),
        "C14" => {
            c14::run(tier, &mut report);
            let s = pick(&["mem-ttl-range", "mem-nottl-stamped", "disk-nottl-stamped-v3", "mem-ttl", "mem-core", "disk-v3", "disk-v3-ttl", "focus-v3-ttl"], thorough);
            seq_check(prop, tier, s, &["C14"], budget * 0.3, &mut report);
            let bound = if thorough { 3 } else { 2 };
            schedprops::run_programs(concprogs::scan_programs(thorough), bound, 3000, budget * 0.3, &schedprops::judge_linearizable, None, &["C14"], &mut report);
            // index agreement at quiescence after the sweeper / lazy expiry raced a renewal of the key
            let sweeps: Vec<schedprops::Program> = concprogs::sweep_programs(thorough).into_iter().filter(|p| thorough || p.name.starts_with("sweep-mem")).collect();
            schedprops::run_programs(sweeps, bound, 3000, budget * 0.12, &schedprops::judge_linearizable, None, &["C14"], &mut report);
            c14::stress_supplement(&mut report, if thorough { 20.0 } else { 3.0 });
        }
        "C15" => {
            report.level = "exploration";
            c15::check(tier, budget, &mut report);
        }
        "C16" => {
            // (1) cache FSM, (2) cache on/off differential over persistent SEQ suites
            c16::run_fsm(tier, budget * 0.2, &mut report);
            let mut s = pick(&["disk-v3-ttl", "disk-v3", "edge-v3", "focus-v3", "focus-v3-ttl"], thorough);
            for suite in s.iter_mut() {
                let mut off = suite.cfg;
                off.cache = false;
                suite.shadow = Some(off);
                suite.name = format!("{}~nocache", suite.name);
            }
            seq_check(prop, tier, s, &["C16", "C01", "C11", "C14"], budget * 0.55, &mut report);
            schedprops::run_programs(concprogs::warm_programs(false), if thorough { 3 } else { 2 }, 4000, budget * 0.25, &schedprops::judge_linearizable, None, &["C16", "C07", "C08", "C14"], &mut report);
            if report.violations.is_empty() {
                c16::stress_supplement(&mut report, if thorough { 15.0 } else { 2.5 });
            }
        }
        "C11" => {
            let s = pick(&["mem-ttl", "mem-ttl-wrap", "disk-ttl-wrap-v3", "mem-wide", "ts-mem", "disk-wide-v3", "disk-v1-ttl", "disk-v3-ttl", "focus-v2-ttl", "focus-v3-ttl-nocache", "focus-v3-ttl"], thorough);
            seq_check(prop, tier, s, &["C11", "C01", "C14"], budget * 0.5, &mut report);
            // sweeper vs writers renewing / replacing the key, all interleavings within the bound
            let bound = if thorough { 3 } else { 2 };
            let mut progs = concprogs::sweep_programs(thorough);
            // a reader whose stale-read retry lands on a replacement that is already expired
            progs.extend(c08::programs(false).into_iter().filter(|p| p.name.starts_with("ttl-dead")));
            schedprops::run_programs(progs, bound, 3000, budget * 0.25, &schedprops::judge_linearizable, None, &["C11", "C07", "C13", "C14"], &mut report);
            // crash between the TTL write and its flush, reopened with TTL on
            let cs: Vec<Suite> = suites::crash_suites(thorough).into_iter().filter(|s| s.name == "crash-ttl-v3" || s.name.starts_with("crash-ttl-reuse")).collect();
            let plan = crashprops::CrashPlan { crash: true, layout_tag: "C10", nest: 0, reopen_cycles: 0, sector_tear: false, layout: false, probe_auto_ts: false, continue_after: false };
            crashprops::crash_check(prop, cs, &["C11", "C02", "C03"], plan, budget * 0.25, &mut report);
            // recovery interrupted between two of its own retirement transactions (> 1024 extents)
            bigrecovery::run(&["C11"], &mut report);
        }
        "C12" => {
            let s = pick(&["ts-mem", "mem-wide", "ts-mem-limit", "disk-wide-v2", "ts-disk-v1", "ts-disk-v2", "ts-disk-v3", "ts-oneshard-mem", "ts-oneshard-v3", "ts-oneshard-v2", "mem-limit", "mem-core", "disk-limit"], thorough);
            seq_check(prop, tier, s, &["C12"], budget * 0.6, &mut report);
            // automatic timestamps after *crash* recovery: every recovered key accepts an automatic write
            let cs: Vec<Suite> = suites::crash_suites(thorough).into_iter().filter(|s| ["crash-core-v3", "crash-core-v2", "crash-edge-v1", "crash-ttl-v3"].contains(&s.name.as_str())).collect();
            let plan = crashprops::CrashPlan { crash: true, layout_tag: "C10", nest: 0, reopen_cycles: 0, sector_tear: false, layout: false, probe_auto_ts: true, continue_after: false };
            crashprops::crash_check(prop, cs, &["C12"], plan, budget * 0.4, &mut report);
            // labelled sampling supplement for the window between two adjacent atomic steps of the clock
            if report.violations.is_empty() {
                c13::clock_supplement(&mut report, if thorough { 20.0 } else { 3.0 });
            }
        }
        "C13" => {
            let s = pick(&["disk-shrink-v3", "disk-shrink-v2", "mem-core", "mem-bigkey", "mem-bigkey-limit", "mem-wide", "mem-limit", "mem-ttl", "ts-mem-limit", "disk-limit", "focus-v3", "focus-v3-ttl", "edge-v1", "disk-v2"], thorough);
            seq_check(prop, tier, s, &["C13"], budget * 0.6, &mut report);
            // accounting right after recovery from every crash image
            let cs: Vec<Suite> = suites::crash_suites(thorough).into_iter().filter(|s| ["crash-core-v3", "crash-small-v3", "crash-ttl-v3"].contains(&s.name.as_str())).collect();
            let plan = crashprops::CrashPlan { crash: true, layout_tag: "C10", nest: 0, reopen_cycles: 0, sector_tear: false, layout: false, probe_auto_ts: false, continue_after: false };
            crashprops::crash_check(prop, cs, &["C13"], plan, budget * 0.2, &mut report);
            // concurrent creators / growers / deleters against a limit admitting only some
            let bound = if thorough { 3 } else { 2 };
            let check: schedprops::DecisionCheck = std::sync::Arc::new(|store: &std::sync::Arc<feoxdb::FeoxStore>| {
                let usage = store.memory_usage();
                let limit = store.stats().memory_usage; // placeholder, replaced below
                let _ = limit;
                None::<String>.or_else(|| if usage > (usize::MAX >> 1) { Some(format!("C13: memory_usage() wrapped below zero ({usage})")) } else { None })
            });
            let progs = concprogs::limit_programs(thorough);
            let limit = progs[0].cfg.max_memory.unwrap();
            let check_limit: schedprops::DecisionCheck = std::sync::Arc::new(move |store: &std::sync::Arc<feoxdb::FeoxStore>| {
                let usage = store.memory_usage();
                if usage > limit {
                    Some(format!("C13: memory_usage() = {usage} exceeds the limit {limit} at a scheduling point"))
                } else {
                    None
                }
            });
            schedprops::run_programs(progs, bound, 3000, budget * 0.08, &schedprops::judge_linearizable, Some(check_limit), &["C13"], &mut report);
            // the same oracle with a scheduling point after every update of the usage counter: a thread can be
            // parked between two counter updates of one call (keys in pairwise distinct hash buckets)
            let ptprogs = concprogs::limit_point_programs(thorough);
            let ptlimit = ptprogs[0].cfg.max_memory.unwrap();
            let check_pt: schedprops::DecisionCheck = std::sync::Arc::new(move |store: &std::sync::Arc<feoxdb::FeoxStore>| {
                let usage = store.memory_usage();
                if usage > ptlimit {
                    Some(format!("C13: memory_usage() = {usage} exceeds the limit {ptlimit} between two updates of the usage counter"))
                } else {
                    None
                }
            });
            schedprops::run_programs(ptprogs, bound, 3000, budget * 0.08, &schedprops::judge_linearizable, Some(check_pt), &["C13"], &mut report);
            let mut pairs = c07::programs(Cfg::memory(), false);
            pairs.retain(|p| p.name.starts_with("pair-"));
            schedprops::run_programs(pairs, bound, 3000, budget * 0.1, &schedprops::judge_linearizable, Some(check), &["C13"], &mut report);
            // labelled sampling supplement for windows between two adjacent atomic steps (see DESIGN §10)
            if report.violations.is_empty() {
                c13::stress_supplement(&mut report, if thorough { 20.0 } else { 3.0 });
            }
        }
        _ => {
            eprintln!("unknown property {prop}");
            return 2;
        }
    }
    finish(report)
}

pub fn replay(path: &str) -> i32 {
    let Ok(text) = std::fs::read_to_string(path) else {
        eprintln!("cannot read {path}");
        return 2;
    };
    let v: serde_json::Value = serde_json::from_str(&text).unwrap_or_default();
    let r = &v["replay"];
    match r["engine"].as_str() {
        Some("seq") => {
            let suite = r["suite"].as_str().unwrap_or("");
            let hist: Vec<u16> = r["history_indices"].as_array().map(|a| a.iter().map(|x| x.as_u64().unwrap() as u16).collect()).unwrap_or_default();
            let mut code = run_one_path(suite, &hist, false);
            if code == 2 {
                code = run_one_path(suite, &hist, true);
            }
            code
        }
        Some("crash") => {
            let suite = r["suite"].as_str().unwrap_or("");
            let hist: Vec<u16> = r["history_indices"].as_array().map(|a| a.iter().map(|x| x.as_u64().unwrap() as u16).collect()).unwrap_or_default();
            crashprops::replay(suite, &hist, r["image"].as_str().unwrap_or(""))
        }
        Some("sched") => {
            let prop = v["property"].as_str().unwrap_or("");
            let name = r["program"].as_str().unwrap_or("");
            let schedule: Vec<usize> = r["schedule"].as_array().map(|a| a.iter().map(|x| x.as_u64().unwrap() as usize).collect()).unwrap_or_default();
            let Some(p) = all_sched_programs().into_iter().find(|p| p.name == name) else {
                eprintln!("program {name} not found");
                return 2;
            };
            println!("program {}\nschedule {:?}", p.describe(), schedule);
            let mut code = 0;
            for round in 0..2 {
                let ex = schedprops::execute(&p, &schedule, 6000, None);
                if let Some(m) = &ex.machinery {
                    println!("MACHINERY {m}");
                    return 2;
                }
                println!("--- replay {} outcome {:?}, {} decisions", round + 1, ex.outcome, ex.trace.len());
                if round == 0 {
                    for (i, d) in ex.trace.iter().enumerate() {
                        println!("  decision {i}: run T{} of {:?}", d.chosen, d.at);
                    }
                    for rc in &ex.recs {
                        println!("  [{}..{}] T{} {} -> {} (ts {})", rc.invoke, rc.response, rc.thread, p.tables.describe(&rc.op), rc.out.brief(), rc.ts);
                    }
                    for (o, out) in &ex.finals {
                        println!("  final {} -> {}", p.tables.describe(o), out.brief());
                    }
                }
                let cache = std::sync::Mutex::new(std::collections::HashMap::new());
                let msgs = match &ex.outcome {
                    crate::sched::Outcome::Completed if p.name.starts_with("ack:") => schedprops::judge_acknowledged(&p, &ex, &cache),
                    crate::sched::Outcome::Completed => schedprops::judge_linearizable(&p, &ex),
                    other => vec![format!("C18: {other:?}")],
                };
                for m in &msgs {
                    println!("  violation: {m}");
                }
                if !msgs.is_empty() {
                    code = 1;
                }
            }
            let _ = prop;
            code
        }
        Some(engine) => {
            // Component explorers are deterministic and fast: re-run the check and
            // show the violation again.
            println!("replay of engine {engine}: re-running the check of {}", v["property"].as_str().unwrap_or("?"));
            println!("recorded: {}", v["detail"].as_str().unwrap_or(""));
            run_check(v["property"].as_str().unwrap_or(""), "quick")
        }
        None => {
            eprintln!("no replay engine recorded in {path}");
            2
        }
    }
}

/// Debug aid: one crash suite with full crash enumeration, all tags accepted.
pub fn crash_suite_cmd(name: &str, depth: usize, seconds: f64) -> i32 {
    let Some(mut s) = crashprops::all_crash_suites().into_iter().find(|s| s.name == name) else {
        eprintln!("no crash suite {name}");
        return 2;
    };
    s.depth = depth;
    let mut report = Report::new("debug", "quick", "model_checking");
    let nest = std::env::var("VERIF_NEST").ok().and_then(|v| v.parse().ok()).unwrap_or(0);
    let plan = crashprops::CrashPlan { crash: true, layout_tag: "C10", nest, reopen_cycles: 0, sector_tear: false, layout: false, probe_auto_ts: false, continue_after: false };
    crashprops::crash_check("debug", vec![s], &["C01", "C02", "C03", "C04", "C05", "C11", "C12", "C13", "C14"], plan, seconds, &mut report);
    println!("{}", serde_json::to_string(&report.coverage["suites"]).unwrap_or_default());
    let only = std::env::var("VERIF_ONLY_TAG").unwrap_or_default();
    for v in report.violations.iter().filter(|v| only.is_empty() || v.signature.contains(&format!("|{only}:"))).take(5) {
        println!("VIOLATION {}", v.signature.chars().take(300).collect::<String>());
    }
    for m in &report.machinery {
        println!("MACHINERY {m}");
    }
    if report.violations.is_empty() { 0 } else { 1 }
}

/// Debug aid: explore one program at a bound and print the statistics.
pub fn sched_prog(name: &str, bound: u32, seconds: f64) -> i32 {
    let Some(p) = all_sched_programs().into_iter().find(|p| p.name == name) else {
        eprintln!("program {name} not found; programs containing that text:");
        let mut names: Vec<String> = all_sched_programs().into_iter().map(|p| p.name).filter(|n| n.contains(name)).collect();
        names.sort();
        names.dedup();
        for n in names.iter().take(40) {
            eprintln!("  {n}");
        }
        return 2;
    };
    let found = std::sync::Mutex::new(Vec::new());
    let mach = std::sync::Mutex::new(Vec::new());
    let dl = Deadline::new(seconds);
    let cache = std::sync::Mutex::new(std::collections::HashMap::new());
    let ack_judge = |p: &schedprops::Program, ex: &schedprops::Exec| schedprops::judge_acknowledged(p, ex, &cache);
    let judge: &schedprops::Judge = if p.name.starts_with("ack:") { &ack_judge } else { &schedprops::judge_linearizable };
    let st = schedprops::explore_program(&p, bound, 4000, &dl, worker_threads(), judge, None, &found, &mach);
    println!(
        "program {name} bound {bound}: schedules {} decisions {} distinct histories {} results {} complete {} longest {} wall {:.1}s",
        st.executions, st.decisions, st.distinct_histories, st.distinct_results, st.complete, st.max_trace, dl.elapsed()
    );
    for m in mach.lock().unwrap().iter() {
        println!("MACHINERY {m}");
    }
    for f in found.lock().unwrap().iter().take(3) {
        println!("VIOLATION schedule {:?} reproduced={} {}", f.schedule, f.reproduced, f.msg.lines().next().unwrap_or(""));
    }
    0
}

pub fn all_sched_programs() -> Vec<schedprops::Program> {
    let mut v = Vec::new();
    for thorough in [false, true] {
        v.extend(c07::programs(Cfg::memory(), thorough));
        let mut disk = Cfg::persistent(24);
        disk.cache = true;
        v.extend(c07::programs(disk, thorough));
        v.extend(c08::programs(thorough));
        v.extend(c08::contention_programs(thorough));
        v.extend(c08::write_behind_programs());
        v.extend(c08::ack_programs());
        v.extend(c08::ack_fault_programs());
        v.extend(c08::close_programs(thorough));
        v.extend(concprogs::scan_programs(thorough));
        v.extend(concprogs::limit_programs(thorough));
        v.extend(concprogs::limit_point_programs(thorough));
        v.extend(concprogs::sweep_programs(thorough));
        v.extend(concprogs::warm_programs(thorough));
    }
    v
}

pub fn run_one_path(suite: &str, hist: &[u16], thorough: bool) -> i32 {
    let Some(s) = suites::find_suite(suite, thorough) else {
        eprintln!("no suite {suite}");
        return 2;
    };
    if hist.iter().any(|&i| i as usize >= s.ops.len()) {
        eprintln!("history index out of range for suite {suite}");
        return 2;
    }
    println!("suite {} config {} history {:?}", s.name, s.cfg.name(), seq::describe_hist(&s, hist));
    let po = seq::run_path(&s, hist, None, true);
    if let Some(m) = po.machinery {
        println!("MACHINERY {m}");
        return 2;
    }
    match po.violation {
        Some(v) => {
            println!("violation: {v}");
            1
        }
        None => {
            println!("no violation; canonical state {:016x}", po.canon);
            0
        }
    }
}

pub fn run_suite(name: &str, depth: usize, seconds: f64) -> i32 {
    let found = suites::find_suite(name, false)
        .or_else(|| suites::crash_suites(false).into_iter().find(|s| s.name == name))
        .or_else(|| suites::partition_suites(false).into_iter().find(|s| s.name == name))
        .or_else(|| suites::layout_suites(false).into_iter().find(|s| s.name == name));
    let Some(mut s) = found else {
        eprintln!("no suite {name}");
        return 2;
    };
    s.depth = depth;
    let dl = Deadline::new(seconds);
    let r = seq::explore(&s, &dl, worker_threads(), None);
    println!(
        "suite {} depth {} completed {} complete={} states={} transitions={} outcomes={} wall={:.1}s",
        s.name, depth, r.max_depth_completed, r.complete, r.states, r.transitions, r.distinct_outcomes, dl.elapsed()
    );
    for m in &r.machinery {
        println!("MACHINERY {m}");
    }
    for (h, v) in r.violations.iter().take(5) {
        println!("VIOLATION {:?} (indices {:?})\n   {v}", seq::describe_hist(&s, h), h);
    }
    for (o, n) in &r.observations {
        println!("observation x{n}: {o}");
    }
    if !r.violations.is_empty() {
        1
    } else {
        0
    }
}

pub fn smoke() -> i32 {
    use std::time::Instant;
    let t = suites::std_tables();
    let start = Instant::now();
    let n = 2000;
    for _ in 0..n {
        let mut s = Sut::create(Cfg::memory(), "smoke").unwrap();
        s.apply(&t, &Op::Insert { k: 0, v: 0, ts: 0, ttl: 0, bytes: false });
        s.apply(&t, &Op::Get(0));
    }
    println!("memory store create+insert+get+drop: {:.1} us", start.elapsed().as_secs_f64() * 1e6 / n as f64);
    for uring in [false, true] {
        let mut cfg = Cfg::persistent(24);
        cfg.uring = uring;
        let start = Instant::now();
        let n = 50;
        let mut open = 0.0;
        let mut flush = 0.0;
        let mut close = 0.0;
        for _ in 0..n {
            let t0 = Instant::now();
            let mut s = Sut::create(cfg, "smoke").unwrap();
            open += t0.elapsed().as_secs_f64();
            s.apply(&t, &Op::Insert { k: 0, v: 0, ts: 0, ttl: 0, bytes: false });
            let t1 = Instant::now();
            let o = s.apply(&t, &Op::Flush);
            assert_eq!(o, crate::sut::Out::Unit, "flush");
            flush += t1.elapsed().as_secs_f64();
            let t2 = Instant::now();
            s.close();
            close += t2.elapsed().as_secs_f64();
        }
        println!(
            "persistent (uring={uring}) open {:.2} ms, flush {:.2} ms, close {:.2} ms, total {:.2} ms",
            open * 1e3 / n as f64,
            flush * 1e3 / n as f64,
            close * 1e3 / n as f64,
            start.elapsed().as_secs_f64() * 1e3 / n as f64
        );
    }
    0
}
