//! Execution and exploration of concurrent programs under the controlled scheduler.

use super::lin::{self, LinInput, OpRec};
use crate::model::Model;
use crate::sched::{self, Decision, Outcome, Sched};
use crate::session::{SchedHooks, Session, F_FORCE_SYNC, F_NO_URING};
use crate::sut::{apply_op, Cfg, Op, Out, Sut, Tables, T0};
use crate::util::{hash64, par_for_each, Deadline, Report};
use serde_json::json;
use std::collections::HashSet;
use std::sync::atomic::{AtomicBool, AtomicU64, Ordering};
use std::sync::{Arc, Mutex};
use std::time::Duration;

#[derive(Clone)]
pub struct Program {
    pub name: String,
    pub cfg: Cfg,
    pub tables: Arc<Tables>,
    /// executed by the harness thread before the controlled phase (sequential)
    pub setup: Vec<Op>,
    pub threads: Vec<Vec<Op>>,
    /// keys read back after all threads finished
    pub observe: Vec<u8>,
}

impl Program {
    pub fn describe(&self) -> serde_json::Value {
        json!({
            "program": self.name,
            "config": self.cfg.name(),
            "setup": self.setup.iter().map(|o| self.tables.describe(o)).collect::<Vec<_>>(),
            "threads": self.threads.iter().map(|t| t.iter().map(|o| self.tables.describe(o)).collect::<Vec<_>>()).collect::<Vec<_>>(),
        })
    }
}

pub struct Exec {
    pub outcome: Outcome,
    pub trace: Vec<Decision>,
    pub recs: Vec<OpRec>,
    pub finals: Vec<(Op, Out)>,
    pub final_dump: Option<feoxdb::verif::StoreDump>,
    pub monitor: Vec<String>,
    pub init: Option<Model>,
    pub machinery: Option<String>,
    pub unjoined: usize,
    /// device log from before the device existed (only for `ack:` programs) and the image it starts from
    pub log: Vec<crate::session::IoEv>,
    pub base: Vec<u8>,
    /// the sequential setup as pseudo-history (thread usize::MAX)
    pub setup_recs: Vec<OpRec>,
    pub now: u64,
}

impl Exec {
    pub fn choices(&self) -> Vec<usize> {
        self.trace.iter().map(|d| d.chosen).collect()
    }
    pub fn signature(&self) -> u64 {
        // the order of invocations/responses and every result
        let mut evs: Vec<(u64, String)> = Vec::new();
        for r in &self.recs {
            evs.push((r.invoke, format!("i{}#{}", r.thread, r.idx)));
            evs.push((r.response, format!("r{}#{}:{:?}", r.thread, r.idx, r.out)));
        }
        evs.sort();
        hash64(&[format!("{:?}{:?}", evs.iter().map(|e| &e.1).collect::<Vec<_>>(), self.finals).as_bytes()])
    }
    pub fn results_signature(&self) -> u64 {
        let mut rs: Vec<String> = self.recs.iter().map(|r| format!("{}#{}:{:?}", r.thread, r.idx, r.out)).collect();
        rs.sort();
        hash64(&[format!("{rs:?}{:?}", self.finals).as_bytes()])
    }
}

/// (number of data-area writes to fail, fail every write, fail every fsync) by program family.
pub fn fault_spec(name: &str) -> (u32, bool, bool) {
    // "ack:fault-data3:..." = an acknowledgement program run while data writes fail
    let name = name.strip_prefix("ack:").unwrap_or(name);
    if let Some(rest) = name.strip_prefix("fault-data") {
        let n: u32 = rest.split(':').next().and_then(|d| d.parse().ok()).unwrap_or(3);
        (n, false, false)
    } else if name.starts_with("fault-writes:") {
        (0, true, false)
    } else if name.starts_with("fault-fsyncs:") {
        (0, false, true)
    } else {
        (0, false, false)
    }
}

pub type DecisionCheck = Arc<dyn Fn(&Arc<feoxdb::FeoxStore>) -> Option<String> + Send + Sync>;

/// Execute `p` once under the schedule prefix (thread ids); defaults afterwards.
pub fn execute(p: &Program, prefix: &[usize], horizon: usize, on_decision: Option<DecisionCheck>) -> Exec {
    execute_stall(p, prefix, horizon, on_decision, Duration::from_secs(4))
}

/// `stall`: how long the execution may go without a scheduling decision before it is
/// given up as stuck.
pub fn execute_stall(p: &Program, prefix: &[usize], horizon: usize, on_decision: Option<DecisionCheck>, stall: Duration) -> Exec {
    let mut ex = Exec {
        outcome: Outcome::Completed,
        trace: Vec::new(),
        recs: Vec::new(),
        finals: Vec::new(),
        final_dump: None,
        monitor: Vec::new(),
        init: None,
        machinery: None,
        unjoined: 0,
        log: Vec::new(),
        base: Vec::new(),
        setup_recs: Vec::new(),
        now: T0,
    };
    let want_log = p.name.starts_with("ack:");
    let mut roles: Vec<&'static str> = Vec::new();
    if p.cfg.persistent {
        for i in 0..p.cfg.workers {
            roles.push(feoxdb::verif::worker_role(i));
        }
        roles.push("periodic");
    }
    let mut tries = 0;
    let (sess, sched, mut sut) = loop {
        let sess = Session::new();
        sess.clock.store(T0, Ordering::SeqCst);
        sess.set_flag(F_NO_URING, !p.cfg.uring);
        sess.set_flag(F_FORCE_SYNC, !p.cfg.uring);
        sess.set_flag(crate::session::F_MEM_POINTS, p.cfg.mem_points);
        let sched = Sched::new(prefix.to_vec(), horizon, &roles);
        sess.set_sched(Some(sched.clone() as Arc<dyn SchedHooks>));
        sess.log_enabled.store(want_log, Ordering::SeqCst);
        let sut = match Sut::create_with(p.cfg, "sched", sess.clone()) {
            Ok(s) => s,
            Err(e) => {
                ex.machinery = Some(e);
                return ex;
            }
        };
        // Shard assignment is randomised per store: with several workers rebuild until
        // key i maps to shard i mod workers, so that the work distribution is reproducible.
        let ok = !(p.cfg.persistent && p.cfg.workers > 1)
            || p.tables.keys.iter().enumerate().all(|(i, k)| sut.store().verif_shard_of(k) == Some(i % p.cfg.workers));
        // points inside the bucket guard: a thread parked there must not hold a lock another thread needs
        let ok = ok && (!p.cfg.mem_points || {
            let mut b: Vec<usize> = p.tables.keys.iter().map(|k| sut.store().verif_bucket_of(k)).collect();
            let n = b.len();
            b.sort();
            b.dedup();
            b.len() == n
        });
        if ok {
            break (sess, sched, sut);
        }
        tries += 1;
        if tries > 400 {
            ex.machinery = Some("could not obtain the wanted key-to-shard assignment".into());
            return ex;
        }
        drop(sut);
    };
    let n_bg = if p.cfg.persistent { p.cfg.workers + 1 } else { 0 };
    let t0 = std::time::Instant::now();
    while sess.adopted.load(Ordering::SeqCst) < n_bg {
        if t0.elapsed() > Duration::from_secs(20) {
            ex.machinery = Some("env: background threads were not adopted within 20 s".into());
            return ex;
        }
        std::thread::sleep(Duration::from_micros(50));
    }
    // faults requested by the program family (applied to the controlled phase only)
    let fault = fault_spec(&p.name);
    // sequential setup, checked against the strict model
    let mut model = Model::new(p.cfg, T0);
    for (si, op) in p.setup.iter().enumerate() {
        let log_invoke = sess.log_len();
        let out = sut.apply(&p.tables, op);
        let ts = sched::take_thread_timestamp();
        model.now = sut.now();
        ex.setup_recs.push(OpRec { thread: usize::MAX, idx: si, op: *op, invoke: 0, response: 0, out: out.clone(), ts, log_invoke, log_response: sess.log_len() });
        if let Err(e) = model.step(&p.tables, op, &out, ts) {
            ex.machinery = Some(format!("setup step {} disagrees with the model: {e}", p.tables.describe(op)));
            return ex;
        }
    }
    if fault != (0, false, false) {
        model.faulty_device = true;
    }
    ex.init = Some(model.clone());
    {
        let mut f = sess.fault.lock();
        f.fail_data_writes = fault.0;
        f.fail_writes = fault.1;
        f.fail_fsyncs = fault.2;
    }
    let store = sut.store().clone();
    // "close:" programs: the (single) application thread drops the last handle of the store
    // inside the controlled phase, so the clean shutdown is explored like any other call
    let close_in_program = p.name.contains("close:") && p.threads.len() == 1 && on_decision.is_none();
    let mut closer: Option<Arc<feoxdb::FeoxStore>> = if close_in_program { sut.store.take() } else { None };
    if let Some(f) = on_decision {
        let st = store.clone();
        sched.set_on_decision(Box::new(move || f(&st)));
    }
    let stamp = Arc::new(AtomicU64::new(1));
    let recs: Arc<Mutex<Vec<OpRec>>> = Arc::new(Mutex::new(Vec::new()));
    let mut handles = Vec::new();
    for (ti, ops) in p.threads.iter().enumerate() {
        let (tx, rx) = std::sync::mpsc::channel();
        let ops = ops.clone();
        let tables = p.tables.clone();
        let sess2 = sess.clone();
        let sched2 = sched.clone();
        let store2 = store.clone();
        let stamp2 = stamp.clone();
        let recs2 = recs.clone();
        let closer = closer.take();
        let h = std::thread::spawn(move || {
            sess2.install();
            let tid = sched2.register("app", true);
            let _ = tx.send(tid);
            sched2.start_gate(tid);
            for (i, op) in ops.iter().enumerate() {
                sched::take_thread_timestamp();
                let log_invoke = sess2.log_len();
                let invoke = stamp2.fetch_add(1, Ordering::SeqCst);
                let out = match op {
                    Op::Tick => {
                        sched2.grant_tick();
                        Out::Unit
                    }
                    _ => apply_op(&store2, &tables, op),
                };
                crate::util::epoch_pump();
                let ts = sched::take_thread_timestamp();
                let response = stamp2.fetch_add(1, Ordering::SeqCst);
                let log_response = sess2.log_len();
                recs2.lock().unwrap().push(OpRec { thread: ti, idx: i, op: *op, invoke, response, out, ts, log_invoke, log_response });
                SchedHooks::point(&*sched2, "op_boundary", ti as u64, i as u64);
            }
            if let Some(last) = closer {
                // clean close = flush + shutdown: recorded as an acknowledging flush
                drop(store2);
                let log_invoke = sess2.log_len();
                let invoke = stamp2.fetch_add(1, Ordering::SeqCst);
                let _call = crate::util::in_call("close (drop) under the scheduler");
                let out = match std::panic::catch_unwind(std::panic::AssertUnwindSafe(move || drop(last))) {
                    Ok(()) => Out::Unit,
                    Err(p) => Out::Panic(crate::sut::panic_text(p)),
                };
                let response = stamp2.fetch_add(1, Ordering::SeqCst);
                recs2.lock().unwrap().push(OpRec { thread: ti, idx: ops.len(), op: Op::Flush, invoke, response, out, ts: 0, log_invoke, log_response: sess2.log_len() });
                sched2.finish_thread();
                Session::uninstall();
                return;
            }
            sched2.finish_thread();
            drop(store2);
            Session::uninstall();
        });
        if rx.recv_timeout(Duration::from_secs(20)).is_err() {
            ex.machinery = Some("env: application thread did not register within 20 s".into());
            return ex;
        }
        handles.push(h);
    }
    drop(store);
    if let Err(e) = sched.begin(n_bg + p.threads.len(), Duration::from_secs(20)) {
        ex.machinery = Some(format!("env: {e}"));
        sched.stop();
        return ex;
    }
    ex.outcome = sched.wait_done(stall);
    // the scheduler is now in free mode: threads run to completion on their own
    let t1 = std::time::Instant::now();
    for h in handles {
        while !h.is_finished() && t1.elapsed() < Duration::from_secs(3) {
            std::thread::sleep(Duration::from_micros(100));
        }
        if h.is_finished() {
            let _ = h.join();
        } else {
            ex.unjoined += 1;
        }
    }
    {
        let st = sched.m.lock();
        ex.trace = st.trace.clone();
        ex.monitor = st.monitor.clone();
    }
    ex.recs = recs.lock().unwrap().clone();
    ex.recs.sort_by_key(|r| r.invoke);
    {
        // the device works again for the quiescent observations and the close
        let mut f = sess.fault.lock();
        f.fail_data_writes = 0;
        f.fail_writes = false;
        f.fail_fsyncs = false;
    }
    if ex.unjoined == 0 && matches!(ex.outcome, Outcome::Completed) && !close_in_program && p.cfg.persistent && fault == (0, false, false) {
        // C05 / C10 at the quiescent point the threads themselves reached: when every thread's last call
        // is an acknowledged flush(), the newest valid metadata copy in the file - read by the independent
        // decoder, before the harness flushes anything itself - must carry the live totals.
        let all_flushed = !p.threads.is_empty()
            && p.threads.iter().enumerate().all(|(ti, ops)| {
                matches!(ops.last(), Some(Op::Flush)) && ex.recs.iter().any(|r| r.thread == ti && r.idx + 1 == ops.len() && r.out == Out::Unit)
            });
        if let (true, Some(path)) = (all_flushed, sut.path.as_ref()) {
            if let Ok(image) = std::fs::read(path) {
                let d = crate::layoutref::decode(&image);
                let dump = sut.store().verif_dump();
                let live_records = dump.records.len() as u64;
                let live_bytes: u64 = dump.records.iter().map(|r| r.blocks * 4096).sum();
                match d.meta.as_ref() {
                    None => ex.monitor.push("C10: no valid metadata copy in the file after every thread's flush() had returned".into()),
                    Some(m) if dump.buffered.is_empty() && dump.records.iter().all(|r| r.sector != 0) && (m.total_records != live_records || m.total_size != live_bytes) => {
                        ex.monitor.push(format!(
                            "C05: after every thread's flush() had returned the persisted counters (records {}, bytes {}) differ from the live totals ({live_records}, {live_bytes}); C10: metadata counters differ from the live totals",
                            m.total_records, m.total_size
                        ));
                    }
                    _ => {}
                }
            }
        }
    }
    if ex.unjoined == 0 && matches!(ex.outcome, Outcome::Completed) && !close_in_program {
        // quiescent observations
        if p.cfg.persistent && p.name.starts_with("wb:") {
            // write-behind programs never call flush(): grant coordinator rounds only
            let mut reason = String::new();
            for _round in 0..3 {
                sut.quiesce(10_000);
                let r0 = sess.coordinator_rounds.load(Ordering::SeqCst);
                sched.grant_tick();
                let t0 = std::time::Instant::now();
                while sess.coordinator_rounds.load(Ordering::SeqCst) == r0 && t0.elapsed() < Duration::from_secs(10) {
                    std::thread::sleep(Duration::from_micros(100));
                }
                sut.quiesce(10_000);
                let d = sut.store().verif_dump();
                reason = if !d.buffered.is_empty() {
                    format!("{} accepted write(s) still only in the write buffer", d.buffered.len())
                } else if !d.retirements.is_empty() {
                    format!("{} retirement(s) still queued", d.retirements.len())
                } else if let Some(r) = d.records.iter().find(|r| r.sector == 0) {
                    format!("key {} has no durable extent", crate::util::show(&r.key))
                } else {
                    // the file as it stands, read by the independent decoder: exactly the live keys (an accepted
                    // delete whose generation is still on the device would come back after a restart)
                    let on_device: Vec<Vec<u8>> = sut.path.as_ref().and_then(|p| std::fs::read(p).ok()).map(|img| crate::layoutref::decode(&img).live().keys().cloned().collect()).unwrap_or_default();
                    let live: Vec<Vec<u8>> = d.records.iter().map(|r| r.key.clone()).collect();
                    match on_device.iter().find(|k| !live.contains(k)) {
                        Some(k) => format!("key {} is still on the device although its delete was accepted (it would be back after a restart)", crate::util::show(k)),
                        None => String::new(),
                    }
                };
                if reason.is_empty() {
                    break;
                }
            }
            if !reason.is_empty() {
                ex.monitor.push(format!("C19: after 3 coordinator rounds without flush(): {reason}"));
            }
        } else if p.cfg.persistent {
            // let background retirement settle through the normal path
            let _ = apply_op(sut.store(), &p.tables, &Op::Flush);
        }
        for &k in &p.observe {
            let op = Op::Get(k);
            let out = apply_op(sut.store(), &p.tables, &op);
            ex.finals.push((op, out));
        }
        let dump = sut.store().verif_dump();
        // C12 at quiescence (nothing concurrent any more): an automatically timestamped write to every
        // observed key must be accepted, whatever the schedule did to the key's clock. Taken after the
        // observations and the dump, so the linearization sees the state the threads left.
        if !p.name.starts_with("wb:") {
            for &k in &p.observe {
                let key = &p.tables.keys[k as usize];
                if dump.records.iter().any(|r| &r.key == key && r.timestamp == u64::MAX) || p.tables.values.is_empty() {
                    continue;
                }
                let probe = Op::Insert { k, v: 0, ts: 0, ttl: 0, bytes: false };
                if apply_op(sut.store(), &p.tables, &probe) == Out::err("OlderTimestamp") {
                    ex.monitor.push(format!(
                        "C12: after all threads had finished, an automatic write to key {} (timestamp {} at that point) was refused as older; C07: a refusal without any concurrent accepted modification",
                        crate::util::show(key),
                        dump.records.iter().find(|r| &r.key == key).map_or(0, |r| r.timestamp)
                    ));
                }
            }
        }
        ex.final_dump = Some(dump);
    }
    ex.now = sut.now();
    if want_log {
        ex.log = sess.log.lock().clone();
        ex.base = if p.cfg.format >= 3 { vec![0u8; p.cfg.total_blocks() as usize * 4096] } else { crate::layoutref::empty_device(p.cfg.format, p.cfg.total_blocks(), T0 / crate::sut::SEC) };
    }
    if close_in_program && (ex.unjoined > 0 || !matches!(ex.outcome, Outcome::Completed)) {
        // the closing thread is wedged inside the drop: nothing left to clean up here
    }
    if ex.unjoined == 0 {
        sut.close();
    } else {
        // threads are wedged inside the store: leak it rather than hang in drop
        std::mem::forget(sut);
    }
    ex
}

#[derive(Default)]
pub struct SchedStats {
    pub executions: u64,
    pub decisions: u64,
    pub distinct_histories: u64,
    pub distinct_results: u64,
    pub bound_completed: i64,
    pub complete: bool,
    pub max_trace: usize,
}

pub struct Found {
    pub program: Program,
    pub schedule: Vec<usize>,
    pub msg: String,
    pub reproduced: bool,
}

/// Set by the C18 check only: an execution in which no thread reaches a scheduling
/// point for several seconds is reported as a termination failure instead of a
/// harness problem.
pub static STUCK_IS_A_VERDICT: std::sync::atomic::AtomicBool = std::sync::atomic::AtomicBool::new(false);

pub type Judge<'a> = dyn Fn(&Program, &Exec) -> Vec<String> + Sync + 'a;

/// Default oracle: linearizability against the LWW model + range clauses + I/O monitor.
pub fn judge_linearizable(p: &Program, ex: &Exec) -> Vec<String> {
    let mut v: Vec<String> = ex.monitor.clone();
    let Some(init) = ex.init.as_ref() else { return v };
    let dump = ex.final_dump.clone();
    let final_check = |m: &Model| -> Result<(), String> {
        match &dump {
            Some(d) => match m.check_dump(d).into_iter().next() {
                Some(e) => Err(e),
                None => Ok(()),
            },
            None => Ok(()),
        }
    };
    let inp = LinInput { tables: &p.tables, init, recs: &ex.recs, finals: &ex.finals, final_check: &final_check };
    if let Err(e) = lin::linearizable(&inp) {
        let hist: Vec<String> = ex
            .recs
            .iter()
            .map(|r| format!("[{}..{}] T{} {} -> {} (ts {})", r.invoke, r.response, r.thread, p.tables.describe(&r.op), r.out.brief(), r.ts))
            .collect();
        v.push(format!(
            "C07: {e}\n  history: {}\n  final: {:?}",
            hist.join("\n           "),
            ex.finals.iter().map(|(o, r)| format!("{} -> {}", p.tables.describe(o), r.brief())).collect::<Vec<_>>()
        ));
    }
    for r in ex.recs.iter().filter(|r| matches!(r.op, Op::Range { .. })) {
        if let Err(e) = lin::check_range(&p.tables, init, &ex.recs, r) {
            v.push(e);
        }
    }
    if p.cfg.persistent && !p.name.starts_with("wb:") {
        if let Some(d) = &ex.final_dump {
            // quiescent (all threads done, flush acknowledged): exact partition of the data area
            if d.buffered.is_empty() && d.retirements.is_empty() {
                v.extend(crate::crash::structural_live(&p.cfg, d));
            }
        }
    }
    for r in &ex.recs {
        if let Out::Panic(m) = &r.out {
            v.push(format!("C20: {} panicked: {m}", p.tables.describe(&r.op)));
        }
    }
    v
}

/// C02 on scheduled executions: every crash image of the execution's device log is
/// judged against the acknowledgement windows derived from a linearization of the
/// history (a flush acknowledges everything that completed before it was invoked).
pub fn judge_acknowledged(p: &Program, ex: &Exec, cache: &Mutex<std::collections::HashMap<u64, Vec<String>>>) -> Vec<String> {
    use crate::crash::{self, KeyHist, Obligations};
    let mut v = judge_linearizable(p, ex);
    let Some(init0) = ex.init.as_ref() else { return v };
    if !v.is_empty() || ex.log.is_empty() {
        return v;
    }
    // a linearization order of the concurrent part
    let dump = ex.final_dump.clone();
    let final_check = |m: &Model| -> Result<(), String> {
        match &dump {
            Some(d) => m.check_dump(d).into_iter().next().map_or(Ok(()), Err),
            None => Ok(()),
        }
    };
    let inp = LinInput { tables: &p.tables, init: init0, recs: &ex.recs, finals: &ex.finals, final_check: &final_check };
    let Ok(order) = lin::linearizable(&inp) else { return v };
    // sequential pseudo-history: setup, then the concurrent ops in linearization order
    let mut seq: Vec<&OpRec> = ex.setup_recs.iter().collect();
    seq.extend(order.iter().map(|&i| &ex.recs[i]));
    let keys = crash::tables_keys(&p.tables);
    let mut model = Model::new(p.cfg, T0);
    model.lenient_ts = true;
    let mut hists: Vec<KeyHist> = keys.iter().map(|k| KeyHist { key: k.clone(), states: vec![(usize::MAX, None)] }).collect();
    let mut produced_by: Vec<Vec<usize>> = vec![vec![usize::MAX]; keys.len()]; // per key: seq index producing each state
    let mut op_begin = Vec::new();
    for (si, r) in seq.iter().enumerate() {
        op_begin.push(r.log_invoke);
        if !matches!(r.op, Op::Tick | Op::Range { .. }) {
            let _ = model.step(&p.tables, &r.op, &r.out, r.ts);
        }
        for (ki, h) in hists.iter_mut().enumerate() {
            let now = model.map.get(&h.key).cloned();
            if h.states.last().unwrap().1 != now {
                h.states.push((si, now));
                produced_by[ki].push(si);
            }
        }
    }
    let mut acks = Vec::new();
    for r in seq.iter() {
        if matches!(r.op, Op::Flush) && r.out == Out::Unit {
            // everything that had completed before this flush was invoked
            let floors: Vec<usize> = produced_by
                .iter()
                .map(|prod| {
                    prod.iter()
                        .rposition(|&si| si == usize::MAX || seq[si].thread == usize::MAX && r.thread == usize::MAX && seq[si].idx < r.idx || (seq[si].thread == usize::MAX && r.thread != usize::MAX) || (seq[si].thread != usize::MAX && r.thread != usize::MAX && seq[si].response < r.invoke))
                        .unwrap_or(0)
                })
                .collect();
            acks.push((r.log_response, floors));
        }
    }
    acks.sort_by_key(|a| a.0);
    let ob = Obligations { hists, acks, op_begin, ttl: p.cfg.ttl };
    let from = ex.setup_recs.last().map(|r| r.log_response).unwrap_or(0);
    let opts = crash::CrashOpts { sector_tear: false, reopen_cycles: 0, nest: 0, now: ex.now, probe_auto_ts: false, continue_after: false };
    let ctx = hash64(&[p.name.as_bytes(), format!("{:?}{:?}", ob.hists, ob.acks).as_bytes()]);
    // identical device logs with identical obligations have identical verdicts: cache per execution
    let mut log_bytes: Vec<u8> = Vec::new();
    for ev in &ex.log[from.min(ex.log.len())..] {
        match ev {
            crate::session::IoEv::W { off, data, .. } => {
                log_bytes.extend_from_slice(&off.to_le_bytes());
                log_bytes.extend_from_slice(&crate::util::hash64(&[data]).to_le_bytes());
            }
            crate::session::IoEv::Fb => log_bytes.push(1),
            crate::session::IoEv::Fe { .. } => log_bytes.push(2),
            crate::session::IoEv::Mark(..) => {}
        }
    }
    let key = hash64(&[&ctx.to_le_bytes(), &log_bytes]);
    if let Some(hit) = cache.lock().unwrap().get(&key) {
        v.extend(hit.iter().cloned());
        return v;
    }
    let seen: Mutex<HashSet<u128>> = Mutex::new(HashSet::new());
    let (_st, findings) = crash::check_history(&p.cfg, &ex.base, &ex.log, &ob, from, &opts, &seen, ctx);
    if std::env::var("VERIF_DEBUG_ACK").is_ok() {
        eprintln!("ack-judge: log events {} from {from} acks {:?} images {} distinct {} recoveries {} findings {}", ex.log.len(), ob.acks, _st.images, _st.distinct, _st.recoveries, findings.len());
        for h in &ob.hists {
            eprintln!("  key {} states {:?}", crate::util::show(&h.key), h.states.iter().map(|(i, g)| (*i, g.as_ref().map(|g| g.ts))).collect::<Vec<_>>());
        }
    }
    let msgs: Vec<String> = findings.into_iter().map(|f| format!("{} [crash image {}]", f.msg, f.desc)).collect();
    cache.lock().unwrap().insert(key, msgs.clone());
    v.extend(msgs);
    v
}

/// Deviation-bounded exploration of all schedules of one program.
pub fn explore_program(
    p: &Program,
    bound: u32,
    horizon: usize,
    deadline: &Deadline,
    threads: usize,
    judge: &Judge,
    on_decision: Option<DecisionCheck>,
    found: &Mutex<Vec<Found>>,
    machinery: &Mutex<Vec<String>>,
) -> SchedStats {
    let mut stats = SchedStats { bound_completed: -1, complete: true, ..Default::default() };
    let histories: Mutex<HashSet<u64>> = Mutex::new(HashSet::new());
    let results: Mutex<HashSet<u64>> = Mutex::new(HashSet::new());
    let executions = AtomicU64::new(0);
    let decisions = AtomicU64::new(0);
    let max_trace = AtomicU64::new(0);
    let stop = AtomicBool::new(false);
    let mut frontier: Vec<Vec<usize>> = vec![vec![]];
    // Iterative deviation bounding is implicit: children are generated only within
    // `bound`; the breadth-first levels visit cheaper schedules first.
    while !frontier.is_empty() {
        let next: Mutex<Vec<Vec<usize>>> = Mutex::new(Vec::new());
        par_for_each(std::mem::take(&mut frontier), threads, &stop, |_, prefix| {
            if deadline.expired() || (executions.load(Ordering::Relaxed) % 64 == 0 && crate::util::open_fds() > 15_000) {
                // time cap, or too many files pinned by indeterminate-write poisoning
                stop.store(true, Ordering::Relaxed);
                return;
            }
            let mut ex = execute(p, &prefix, horizon, on_decision.clone());
            // a start-up timeout is the machine's doing (load), not the store's: try again
            for _ in 0..3 {
                if !ex.machinery.as_deref().is_some_and(|m| m.starts_with("env:")) {
                    break;
                }
                std::thread::sleep(Duration::from_millis(300));
                ex = execute(p, &prefix, horizon, on_decision.clone());
            }
            // silence for a few seconds can be the machine's doing as well: the same schedule
            // once more with a long window decides
            if matches!(ex.outcome, Outcome::Stuck(_)) && ex.machinery.is_none() {
                let again = execute_stall(p, &ex.choices(), horizon, on_decision.clone(), Duration::from_secs(30));
                if again.machinery.is_none() && !matches!(again.outcome, Outcome::Diverged(_)) {
                    ex = again;
                }
            }
            executions.fetch_add(1, Ordering::Relaxed);
            decisions.fetch_add(ex.trace.len() as u64, Ordering::Relaxed);
            max_trace.fetch_max(ex.trace.len() as u64, Ordering::Relaxed);
            if let Some(m) = &ex.machinery {
                let mut g = machinery.lock().unwrap();
                if g.len() < 6 {
                    g.push(format!("[{}] {m}", p.name));
                }
                return;
            }
            let mut msgs: Vec<String> = Vec::new();
            match &ex.outcome {
                Outcome::Completed => {
                    if ex.unjoined > 0 {
                        msgs.push(format!("C18: {} thread(s) did not finish after the schedule completed", ex.unjoined));
                    } else {
                        histories.lock().unwrap().insert(ex.signature());
                        results.lock().unwrap().insert(ex.results_signature());
                        msgs.extend(judge(p, &ex));
                    }
                }
                Outcome::Deadlock(who) => msgs.push(format!("C18: deadlock — no thread can run: {who}")),
                Outcome::Horizon(who) => msgs.push(format!("C18: no termination within {horizon} scheduling decisions (livelock): {who}")),
                Outcome::Diverged(d) => {
                    let mut g = machinery.lock().unwrap();
                    if g.len() < 6 {
                        g.push(format!("[{}] {d}", p.name));
                    }
                    return;
                }
                Outcome::Stuck(s) => {
                    if STUCK_IS_A_VERDICT.load(Ordering::Relaxed) {
                        // the termination check: threads blocked outside every scheduling point
                        // (the unchanged tree never does this) are a deadlock of the store's own
                        msgs.push(format!("C18: deadlock outside every scheduling point — {s}"));
                    } else {
                        let mut g = machinery.lock().unwrap();
                        if g.len() < 6 {
                            g.push(format!("[{}] invisible block: {s}", p.name));
                        }
                        return;
                    }
                }
            }
            if !msgs.is_empty() {
                let schedule = ex.choices();
                // replay the complete schedule before reporting
                let again = execute_stall(p, &schedule, horizon, on_decision.clone(), Duration::from_secs(if matches!(ex.outcome, Outcome::Stuck(_)) { 30 } else { 4 }));
                let same_trace = again.choices() == schedule
                    && again.trace.iter().map(|d| &d.at).collect::<Vec<_>>() == ex.trace.iter().map(|d| &d.at).collect::<Vec<_>>();
                let still = match &again.outcome {
                    Outcome::Completed => again.unjoined > 0 || !judge(p, &again).is_empty(),
                    Outcome::Deadlock(_) | Outcome::Horizon(_) => true,
                    Outcome::Stuck(_) => STUCK_IS_A_VERDICT.load(Ordering::Relaxed),
                    _ => false,
                };
                let mut f = found.lock().unwrap();
                for m in msgs {
                    // capped per property tag
                    let tag = super::tag_of(&m).unwrap_or_default();
                    if f.iter().filter(|x| super::tag_of(&x.msg).unwrap_or_default() == tag).count() < 24 {
                        f.push(Found { program: p.clone(), schedule: schedule.clone(), msg: m, reproduced: same_trace && still });
                    }
                }
                return;
            }
            let kids = sched::alternatives(&ex.trace, prefix.len(), bound);
            if !kids.is_empty() {
                next.lock().unwrap().extend(kids);
            }
        });
        if stop.load(Ordering::Relaxed) {
            stats.complete = false;
            break;
        }
        frontier = next.into_inner().unwrap();
        frontier.sort();
        frontier.dedup();
    }
    stats.executions = executions.load(Ordering::Relaxed);
    stats.decisions = decisions.load(Ordering::Relaxed);
    stats.distinct_histories = histories.lock().unwrap().len() as u64;
    stats.distinct_results = results.lock().unwrap().len() as u64;
    stats.max_trace = max_trace.load(Ordering::Relaxed) as usize;
    if stats.complete {
        stats.bound_completed = bound as i64;
    }
    stats
}

/// Run a list of programs under a time budget and fold everything into the report.
/// Iterative deviation bounding across the whole program list: first every program at
/// `bound - 1`, then every program at `bound` with the time that is left.
pub fn run_programs(
    programs: Vec<Program>,
    bound: u32,
    horizon: usize,
    budget_s: f64,
    judge: &Judge,
    on_decision: Option<DecisionCheck>,
    accept: &[&str],
    report: &mut Report,
) {
    // Floor that does not depend on the machine's speed: every program is explored at
    // bound 0 to completion (no time cap) before the budgeted passes start.
    run_programs_at(programs.clone(), 0, horizon, 1.0e9, judge, on_decision.clone(), accept, report);
    if !report.violations.is_empty() {
        return;
    }
    if bound == 0 {
        return;
    }
    if bound >= 2 {
        let t = Deadline::new(budget_s);
        run_programs_at(programs.clone(), bound - 1, horizon, budget_s * 0.4, judge, on_decision.clone(), accept, report);
        if !report.violations.is_empty() {
            return;
        }
        let rest = (budget_s - t.elapsed()).max(1.0);
        run_programs_at(programs, bound, horizon, rest, judge, on_decision, accept, report);
    } else {
        run_programs_at(programs, bound, horizon, budget_s, judge, on_decision, accept, report);
    }
}

pub fn run_programs_at(
    programs: Vec<Program>,
    bound: u32,
    horizon: usize,
    budget_s: f64,
    judge: &Judge,
    on_decision: Option<DecisionCheck>,
    accept: &[&str],
    report: &mut Report,
) {
    let threads = crate::util::worker_threads();
    let total = Deadline::new(budget_s);
    let found: Mutex<Vec<Found>> = Mutex::new(Vec::new());
    let machinery: Mutex<Vec<String>> = Mutex::new(Vec::new());
    let n = programs.len();
    let mut completed_programs = 0u64;
    let mut single_outcome = 0u64;
    let mut per_family: std::collections::BTreeMap<String, (u64, u64, u64, u64)> = Default::default();
    // Programs are independent: run several at once, each exploring sequentially.
    let stats_all: Mutex<Vec<(String, SchedStats)>> = Mutex::new(Vec::new());
    let stop = AtomicBool::new(false);
    let par_programs = threads.min(n.max(1));
    let inner_threads = (threads / par_programs).max(1);
    par_for_each(programs, par_programs, &stop, |_, p| {
        if total.expired() {
            return;
        }
        let st = explore_program(&p, bound, horizon, &total, inner_threads, judge, on_decision.clone(), &found, &machinery);
        stats_all.lock().unwrap().push((p.name.clone(), st));
    });
    let stats_all = stats_all.into_inner().unwrap();
    let mut sample_names = Vec::new();
    for (name, st) in &stats_all {
        report.add("states", st.distinct_histories);
        report.add("transitions", st.decisions);
        report.add("traces_validated_against_impl", st.executions);
        report.add("schedules_explored", st.executions);
        report.add("distinct_histories", st.distinct_histories);
        if st.complete {
            completed_programs += 1;
        }
        if st.distinct_results <= 1 && st.executions > 1 {
            single_outcome += 1;
        }
        let fam = name.split(':').next().unwrap_or("").to_string();
        let e = per_family.entry(fam).or_insert((0, 0, 0, 0));
        e.0 += 1;
        e.1 += st.executions;
        e.2 += st.distinct_histories;
        e.3 += st.complete as u64;
        if sample_names.len() < 4 && st.distinct_results > 1 {
            sample_names.push(json!({"program": name, "schedules": st.executions, "distinct_histories": st.distinct_histories, "distinct_result_vectors": st.distinct_results, "longest_schedule": st.max_trace}));
        }
    }
    for s in sample_names {
        report.sample(s);
    }
    report.set("programs", n as u64);
    report.set(&format!("programs_completed_at_bound_{bound}"), completed_programs);
    report.set(&format!("programs_capped_at_bound_{bound}"), n as u64 - completed_programs);
    report.add("programs_with_a_single_result_vector", single_outcome);
    report.set("deviation_bound", bound);
    report.merge_map(
        "program_families",
        per_family
            .into_iter()
            .map(|(k, v)| (format!("{k}@bound{bound}"), json!({"programs": v.0, "schedules": v.1, "distinct_histories": v.2, "completed_at_bound": v.3, "deviation_bound": bound})))
            .collect(),
    );
    for m in machinery.into_inner().unwrap() {
        report.machinery(m);
    }
    let mut foreign = 0;
    for f in found.into_inner().unwrap() {
        if !super::accepted(accept, &f.msg) {
            foreign += 1;
            continue;
        }
        let mut rv = f.program.describe();
        rv["engine"] = json!("sched");
        rv["schedule"] = json!(f.schedule);
        rv["reproduced_on_replay"] = json!(f.reproduced);
        let head: String = f.msg.lines().next().unwrap_or("").chars().take(140).collect();
        report.violation(
            format!("{}|{}{}", f.program.name, head, if f.reproduced { "" } else { " [flaky-schedule]" }),
            format!(
                "program {}\nschedule (thread ids{}) {:?}\nreproduced on replay: {}\n{}",
                f.program.describe(),
                if f.schedule.len() > 200 { format!(", first 200 of {}; the replay file has all", f.schedule.len()) } else { String::new() },
                &f.schedule[..f.schedule.len().min(200)],
                f.reproduced,
                f.msg
            ),
            rv,
        );
    }
    report.add("foreign_violations_seen", foreign);
    if n as u64 > completed_programs && bound == 0 {
        report.machinery(format!("{} program(s) could not be explored to completion at bound 0", n as u64 - completed_programs));
    }
}
