//! C20 — the SEQ / SCHED / FAULT enumerations re-executed in a build of the harness
//! and of feoxdb instrumented with AddressSanitizer. The deciding step is still the
//! exhaustive enumeration; the sanitizer is the oracle (any report or abnormal exit
//! of the child process is the violation, the schedule being explored is the replay).

use super::schedprops::{self, Program};
use crate::seq;
use crate::sut::{apply_op, Cfg, Op, Sut};
use crate::util::{Deadline, Report};
use serde_json::json;
use std::io::{BufRead, Write};
use std::sync::atomic::{AtomicBool, Ordering};
use std::sync::Mutex;

fn family(name: &str, thorough: bool) -> Vec<Program> {
    let mut disk = Cfg::persistent(24);
    disk.cache = true;
    match name {
        "c07mem" => super::c07::programs(Cfg::memory(), false).into_iter().step_by(if thorough { 1 } else { 3 }).collect(),
        "c07disk" => super::c07::programs(disk, false).into_iter().step_by(if thorough { 1 } else { 2 }).collect(),
        "c08" => super::c08::programs(thorough),
        "scan" => super::concprogs::scan_programs(thorough),
        "contend" => super::c08::contention_programs(thorough),
        "sweep" => super::concprogs::sweep_programs(thorough),
        "wb" => super::c08::write_behind_programs(),
        _ => Vec::new(),
    }
}

const FAMILIES: [&str; 7] = ["c07mem", "c07disk", "c08", "scan", "contend", "sweep", "wb"];

/// Run the program's threads truly concurrently (no controller), so that the
/// scheduler's hand-offs do not hide unsynchronised accesses. A sampling supplement.
fn execute_free(p: &Program, rounds: usize) {
    // free-running threads need real parallelism: no CPU pinning here
    crate::util::set_home_cpu(None);
    for _ in 0..rounds {
        let Ok(mut sut) = Sut::create(p.cfg, "free") else { return };
        for op in &p.setup {
            sut.apply(&p.tables, op);
        }
        let store = sut.store().clone();
        let sess = sut.sess.clone();
        std::thread::scope(|sc| {
            for ops in &p.threads {
                let store = store.clone();
                let sess = sess.clone();
                let tables = p.tables.clone();
                sc.spawn(move || {
                    sess.install();
                    for op in ops {
                        if !matches!(op, Op::Tick) {
                            let _ = apply_op(&store, &tables, op);
                            crate::util::epoch_pump();
                        }
                    }
                    crate::session::Session::uninstall();
                });
            }
        });
        drop(store);
        sut.close();
    }
}

/// Child entry (runs inside the sanitizer build):
///   fv c20-inner <family> <chunk> <nchunks> <bound> <budget_s> <start_index> <thorough>
pub fn inner(args: &[String]) -> i32 {
    let fam = args[0].as_str();
    let chunk: usize = args[1].parse().unwrap();
    let nchunks: usize = args[2].parse().unwrap();
    let bound: u32 = args[3].parse().unwrap();
    let budget: f64 = args[4].parse().unwrap();
    let start: usize = args[5].parse().unwrap();
    let thorough = args[6] == "1";
    let dl = Deadline::new(budget);
    let out = std::io::stdout();
    let say = |s: String| {
        let mut o = out.lock();
        let _ = writeln!(o, "{s}");
        let _ = o.flush();
    };
    match fam {
        "seq" => {
            let names = ["mem-core", "mem-ttl", "disk-v3", "focus-v3-ttl", "edge-v1"];
            for (i, name) in names.iter().enumerate() {
                if i % nchunks != chunk || i < start {
                    continue;
                }
                let Some(mut s) = crate::suites::find_suite(name, false) else { continue };
                s.depth = s.depth.min(if thorough { 4 } else { 3 });
                say(format!("START {i} seq:{name}"));
                let r = seq::explore(&s, &dl, 1, None);
                say(format!("DONE {i} {} {}", r.transitions, r.states));
                for (h, v) in r.violations.iter().take(3) {
                    if v.contains("panicked") {
                        say(format!("VIOL C20 seq:{name} {:?} {}", seq::describe_hist(&s, h), v.lines().next().unwrap_or("")));
                    }
                }
            }
        }
        "fault" => {
            if chunk == 0 && start == 0 {
                say("START 0 fault:single-deviations".to_string());
                let mut rep = Report::new("C20", "inner", "fault_enumeration");
                super::c09::check("quick", budget, &mut rep);
                say(format!("DONE 0 {} {}", rep.get("evaluations"), rep.get("distinct_nontrivial")));
                for v in rep.violations.iter().filter(|v| v.detail.contains("panicked")).take(3) {
                    say(format!("VIOL C20 fault {}", v.signature));
                }
            }
        }
        "uring" => {
            // the io_uring submission / completion seam: every single deviation and every pair,
            // with the kernel-ownership ledger (and the sanitizer) as oracle
            if chunk == 0 && start == 0 {
                say("START 0 uring:submission-seam".to_string());
                let mut rep = Report::new("C20", "inner", "fault_enumeration");
                super::c09::check_uring(budget, true, &mut rep);
                say(format!("DONE 0 {} {}", rep.get("evaluations"), rep.get("distinct_nontrivial")));
                for v in rep.violations.iter().take(3) {
                    say(format!("VIOL C20 uring {} // {}", v.signature, v.detail.lines().last().unwrap_or("")));
                }
                for m in rep.machinery.iter().take(2) {
                    say(format!("MACH uring {m}"));
                }
            }
        }
        "alloc" => {
            // the crate's public aligned buffer: every request size around the block
            // boundaries, every length the buffer itself admits, written and read in full
            if chunk == 0 && start == 0 {
                use feoxdb::utils::allocator::AlignedBuffer;
                say("START 0 alloc:aligned-buffer".to_string());
                let mut n_ops = 0u64;
                let mut sizes: Vec<usize> = vec![1, 2, 23, 100, 511, 512, 513];
                for b in 1..=4usize {
                    sizes.extend([b * 4096 - 1, b * 4096, b * 4096 + 1]);
                }
                sizes.push(12345);
                let n_sizes = sizes.len() as u64;
                for n in sizes {
                    let Ok(mut buf) = AlignedBuffer::new(n) else { continue };
                    let cap = buf.capacity();
                    for len in [0usize, 1, n.min(cap), cap.saturating_sub(1), cap] {
                        buf.set_len(len);
                        buf.as_mut_slice().fill(0xA5);
                        let sum: u64 = buf.as_slice().iter().map(|b| *b as u64).sum();
                        if sum != 0xA5 * len as u64 {
                            say(format!("VIOL C20 alloc AlignedBuffer::new({n}) with len {len}: the slice does not read back what was written"));
                        }
                        n_ops += 1;
                    }
                    buf.clear();
                    let keep: Vec<AlignedBuffer> = (0..3).filter_map(|_| AlignedBuffer::new(n).ok()).collect();
                    drop(keep);
                    drop(buf);
                }
                say(format!("DONE 0 {n_ops} {n_sizes}"));
            }
        }
        "free" => {
            let mut i = 0;
            for f in FAMILIES {
                for p in family(f, false) {
                    i += 1;
                    if i % nchunks != chunk || i < start {
                        continue;
                    }
                    if dl.expired() {
                        return 0;
                    }
                    say(format!("START {i} free:{}", p.name));
                    execute_free(&p, 3);
                    say(format!("DONE {i} 3 3"));
                }
            }
        }
        _ => {
            let progs = family(fam, thorough);
            let found: Mutex<Vec<schedprops::Found>> = Mutex::new(Vec::new());
            let mach: Mutex<Vec<String>> = Mutex::new(Vec::new());
            for (i, p) in progs.iter().enumerate() {
                if i % nchunks != chunk || i < start {
                    continue;
                }
                if dl.expired() {
                    say(format!("CAPPED {i}"));
                    return 0;
                }
                say(format!("START {i} {}", p.name));
                let st = schedprops::explore_program(p, bound, 4000, &dl, 1, &schedprops::judge_linearizable, None, &found, &mach);
                say(format!("DONE {i} {} {}", st.executions, st.distinct_histories));
                for f in found.lock().unwrap().drain(..) {
                    if super::tag_of(&f.msg).as_deref() == Some("C20") {
                        say(format!("VIOL C20 {} schedule {:?} {}", f.program.name, f.schedule, f.msg.lines().next().unwrap_or("")));
                    }
                }
            }
        }
    }
    0
}

fn asan_binary() -> std::path::PathBuf {
    crate::util::verif_root().join("target-asan/x86_64-unknown-linux-gnu/release/fv")
}

pub fn check(tier: &str, budget_s: f64, report: &mut Report) {
    let thorough = tier == "thorough";
    let exe = asan_binary();
    if !exe.exists() {
        report.machinery(format!("sanitizer build {} missing (bin/setup builds it)", exe.display()));
        return;
    }
    let threads = crate::util::worker_threads();
    let bound = if thorough { 2 } else { 1 };
    let mut fams: Vec<(&str, f64)> = vec![("c07mem", 0.12), ("c07disk", 0.12), ("c08", 0.22), ("scan", 0.14), ("contend", 0.06), ("sweep", 0.08), ("wb", 0.06), ("seq", 0.1), ("fault", 0.04), ("uring", 0.06), ("alloc", 0.01), ("free", 0.05)];
    if !thorough {
        fams.retain(|f| f.0 != "wb");
    }
    let mut per_family = serde_json::Map::new();
    let stop = AtomicBool::new(false);
    for (fam, share) in fams {
        let budget = budget_s * share;
        let nchunks = if fam == "fault" || fam == "alloc" || fam == "uring" { 1 } else { threads };
        let totals: Mutex<(u64, u64, u64, u64)> = Mutex::new((0, 0, 0, 0)); // programs done, executions, distinct, crashes
        let viols: Mutex<Vec<(String, String)>> = Mutex::new(Vec::new());
        std::thread::scope(|sc| {
            for chunk in 0..nchunks {
                let exe = &exe;
                let totals = &totals;
                let viols = &viols;
                let stop = &stop;
                sc.spawn(move || {
                    let mut start = 0usize;
                    let dl = Deadline::new(budget);
                    for _attempt in 0..6 {
                        if stop.load(Ordering::Relaxed) || dl.expired() {
                            break;
                        }
                        let remaining = (budget - dl.elapsed()).max(1.0);
                        let out = crate::util::child_command(exe)
                            .args(["c20-inner", fam, &chunk.to_string(), &nchunks.to_string(), &bound.to_string(), &format!("{remaining:.1}"), &start.to_string(), if thorough { "1" } else { "0" }])
                            .env("ASAN_OPTIONS", "detect_leaks=0:halt_on_error=1:exitcode=77:allocator_may_return_null=1")
                            .output();
                        let Ok(out) = out else {
                            viols.lock().unwrap().push(("spawn".into(), "MACHINERY cannot start the sanitizer build".into()));
                            break;
                        };
                        let mut last_start: Option<(usize, String)> = None;
                        for line in out.stdout.lines().map_while(Result::ok) {
                            if let Some(rest) = line.strip_prefix("START ") {
                                let mut it = rest.splitn(2, ' ');
                                let i: usize = it.next().unwrap_or("0").parse().unwrap_or(0);
                                last_start = Some((i, it.next().unwrap_or("").to_string()));
                            } else if let Some(rest) = line.strip_prefix("DONE ") {
                                let nums: Vec<u64> = rest.split(' ').filter_map(|x| x.parse().ok()).collect();
                                let mut t = totals.lock().unwrap();
                                t.0 += 1;
                                t.1 += nums.get(1).copied().unwrap_or(0);
                                t.2 += nums.get(2).copied().unwrap_or(0);
                                last_start = None;
                            } else if let Some(rest) = line.strip_prefix("MACH ") {
                                viols.lock().unwrap().push((format!("{fam}|machinery"), format!("MACHINERY {rest}")));
                            } else if let Some(rest) = line.strip_prefix("VIOL C20 ") {
                                viols.lock().unwrap().push((rest.chars().take(160).collect(), format!("C20: {rest}")));
                            }
                        }
                        if out.status.success() {
                            break;
                        }
                        // abnormal exit: the sanitizer (or a signal) stopped the child while it explored `last_start`
                        let err = String::from_utf8_lossy(&out.stderr);
                        let excerpt: String = err.lines().filter(|l| l.contains("AddressSanitizer") || l.contains("ERROR") || l.trim_start().starts_with('#') || l.contains("freed by") || l.contains("allocated by") || l.contains("located")).take(28).collect::<Vec<_>>().join("\n");
                        let (i, name) = last_start.clone().unwrap_or((start, "<before the first program>".into()));
                        // only a sanitizer report (exit code 77) or a fatal signal is a verdict;
                        // any other abnormal exit is a failure of the machinery
                        let by_signal = {
                            use std::os::unix::process::ExitStatusExt;
                            out.status.signal().is_some()
                        };
                        if !(out.status.code() == Some(77) || err.contains("AddressSanitizer") || by_signal) {
                            let tail: String = err.lines().rev().take(3).collect::<Vec<_>>().join(" | ");
                            viols.lock().unwrap().push((format!("{fam}|{name}|machinery"), format!("MACHINERY the sanitizer build exited with {:?} while exploring {name}: {tail}", out.status)));
                            start = i + 1;
                            continue;
                        }
                        totals.lock().unwrap().3 += 1;
                        viols.lock().unwrap().push((
                            format!("{fam}|{name}"),
                            format!("C20: the sanitizer build died ({:?}) while exploring {name}\n{excerpt}", out.status),
                        ));
                        start = i + 1;
                    }
                });
            }
        });
        let t = *totals.lock().unwrap();
        report.add("states", t.2);
        report.add("transitions", t.1);
        report.add("traces_validated_against_impl", t.1);
        per_family.insert(fam.to_string(), json!({"programs_or_suites_completed": t.0, "executions_under_asan": t.1, "distinct_histories_or_states": t.2, "sanitizer_stops": t.3, "exhaustive_enumeration": fam != "free"}));
        let mut vs = viols.into_inner().unwrap();
        vs.sort();
        vs.dedup_by(|a, b| a.0 == b.0);
        for (sig, msg) in vs.into_iter().take(6) {
            if let Some(m) = msg.strip_prefix("MACHINERY ") {
                report.machinery(m.to_string());
            } else {
                report.violation(format!("asan|{sig}"), msg, json!({"engine":"c20","where":sig}));
            }
        }
    }
    report.set("families", serde_json::Value::Object(per_family));
    report.set("deviation_bound", bound);
    report.sample(json!({"family": "c08", "what": "every schedule (bound above) of reader|writer;flush;reuse;flush programs executed with feoxdb and the harness compiled with -Zsanitizer=address"}));
    report.set("explanation", "the sequence, schedule and fault enumerations re-executed under AddressSanitizer in child processes; the 'free' family runs the same thread bodies without the controller (a sampling supplement, not counted as enumeration)");
    report.assumptions.push("what the kernel really does with an io_uring buffer is invisible to user-space tools: the 'uring' family decides buffer lifetimes against a ledger (kernel-owned from submission until the code reaps the completion) fed by hooks and by the process's allocator; O_DIRECT paths are unreachable in this sandbox".into());
}
