//! C08 / C18 / C02(schedules) — programs on persistent stores with the flush worker
//! and the periodic coordinator under the controlled scheduler.

use super::schedprops::Program;
use crate::suites::big_value;
use crate::sut::{Cfg, Op, Tables};
use std::sync::Arc;

pub const K: u8 = 0; // the key being read
pub const U: u8 = 1; // another key, sized to reuse K's freed extent
pub const V1: u8 = 0; // one-block value
pub const V1B: u8 = 1; // another one-block value
pub const V2: u8 = 2; // two-block value
pub const V2B: u8 = 3; // another two-block value
pub const VCNT: u8 = 4;
pub const VU1: u8 = 5; // values of the other key (distinct bytes)
pub const VU2: u8 = 6;

pub fn tables() -> Tables {
    Tables {
        keys: vec![b"k".to_vec(), b"u".to_vec()],
        values: vec![
            big_value(700, 0x01),
            big_value(900, 0x02),
            big_value(5000, 0x03),
            big_value(6000, 0x04),
            7i64.to_le_bytes().to_vec(),
            big_value(800, 0x05),
            big_value(5500, 0x06),
        ],
        bounds: vec![b"".to_vec(), vec![0xff; 4]],
        patches: vec![],
    }
}

fn ins(k: u8, v: u8) -> Op {
    Op::Insert { k, v, ts: 0, ttl: 0, bytes: false }
}

fn small(cache: bool, ttl: bool, blocks: u64) -> Cfg {
    let mut c = Cfg::persistent(blocks);
    c.cache = cache;
    c.ttl = ttl;
    c
}

pub fn programs(thorough: bool) -> Vec<Program> {
    let t = Arc::new(tables());
    let mut v = Vec::new();
    for cache in [false, true] {
        for two_block in [false, true] {
            let (kv, kv2, uv) = if two_block { (V2, V2B, VU2) } else { (V1, V1B, VU1) };
            let blocks = if two_block { 5 } else { 3 };
            let readers: Vec<(&str, Op)> = vec![
                ("get", Op::Get(K)),
                ("get_bytes", Op::GetBytes(K)),
                ("range", Op::Range { lo: 0, hi: 1, limit: 10 }),
                ("cas", Op::Cas { k: K, expect: kv, new: V1B, ts: 0, ttl: 0 }),
            ];
            let writers: Vec<(&str, Vec<Op>)> = vec![
                ("overwrite", vec![ins(K, kv2)]),
                ("delete", vec![Op::Delete { k: K, ts: 0 }]),
            ];
            for (rn, r) in &readers {
                for (wn, w) in &writers {
                    if !thorough && cache && *rn == "get_bytes" {
                        continue;
                    }
                    let base = format!("{}{}", if cache { "cache" } else { "nocache" }, if two_block { "-2blk" } else { "-1blk" });
                    // reader | writer then flush then reuse then flush
                    let mut wf = w.clone();
                    wf.push(Op::Flush);
                    wf.push(ins(U, uv));
                    wf.push(Op::Flush);
                    v.push(Program {
                        name: format!("read-vs-flush:{base}:{rn}|{wn};flush;reuse;flush"),
                        cfg: small(cache, false, blocks),
                        tables: t.clone(),
                        setup: vec![ins(K, kv), Op::Flush],
                        threads: vec![vec![*r], wf],
                        observe: vec![K, U],
                    });
                    // background retirement through the periodic coordinator instead of flush()
                    let mut wt = w.clone();
                    wt.push(Op::Tick);
                    if thorough {
                        // three threads: reader | writer+tick | reuser
                        v.push(Program {
                            name: format!("read-vs-tick3:{base}:{rn}|{wn};tick|reuse;flush"),
                            cfg: small(cache, false, blocks),
                            tables: t.clone(),
                            setup: vec![ins(K, kv), Op::Flush],
                            threads: vec![vec![*r], wt.clone(), vec![ins(U, uv), Op::Flush]],
                            observe: vec![K, U],
                        });
                    }
                    wt.push(ins(U, uv));
                    wt.push(Op::Flush);
                    v.push(Program {
                        name: format!("read-vs-tick:{base}:{rn}|{wn};tick;reuse;flush"),
                        cfg: small(cache, false, blocks),
                        tables: t.clone(),
                        setup: vec![ins(K, kv), Op::Flush],
                        threads: vec![vec![*r], wt],
                        observe: vec![K, U],
                    });
                }
            }
            // one retirement pass holding BOTH the generation a reader has pinned and another key's
            // reader-free generation: the pass writes markers for the second while the first must wait
            for (rn, r) in readers.iter().take(if thorough { 4 } else { 2 }) {
                for (wn, w) in &writers {
                    let mut wf = w.clone();
                    wf.push(Op::Delete { k: U, ts: 0 });
                    wf.push(Op::Flush);
                    v.push(Program {
                        name: format!("read-vs-pass:{}{}:{rn}|{wn};delete-other;flush", if cache { "cache" } else { "nocache" }, if two_block { "-2blk" } else { "-1blk" }),
                        cfg: small(cache, false, blocks + 2),
                        tables: t.clone(),
                        setup: vec![ins(K, kv), ins(U, uv), Op::Flush],
                        threads: vec![vec![*r], wf],
                        observe: vec![K, U],
                    });
                }
            }
            // counter key: increment racing with flush of a previous increment
            if !two_block {
                v.push(Program {
                    name: format!("incr-vs-flush:{}:incr|incr;flush;reuse;flush", if cache { "cache" } else { "nocache" }),
                    cfg: small(cache, false, 3),
                    tables: t.clone(),
                    setup: vec![ins(K, VCNT), Op::Flush],
                    threads: vec![vec![Op::Incr { k: K, delta: 1, ts: 0, ttl: 0 }], vec![Op::Incr { k: K, delta: 10, ts: 0, ttl: 0 }, Op::Flush, ins(U, VU1), Op::Flush]],
                    observe: vec![K, U],
                });
            }
            // TTL-only update of an offloaded value: the deferred rewrite borrows the old extent
            let (kv, uv) = if two_block { (V2, VU2) } else { (V1, VU1) };
            // a chain of TTL-only rewrites racing the flush that makes the first of them durable
            if !cache {
                v.push(Program {
                    name: format!("ttl-chain:nocache{}:update_ttl;update_ttl;flush|flush", if two_block { "-2blk" } else { "-1blk" }),
                    cfg: small(false, true, if two_block { 8 } else { 5 }),
                    tables: t.clone(),
                    setup: vec![ins(K, kv), Op::Flush],
                    threads: vec![vec![Op::UpdateTtl { k: K, secs: 1000 }, Op::UpdateTtl { k: K, secs: 2000 }, Op::Flush], vec![Op::Flush]],
                    observe: vec![K],
                });
                v.push(Program {
                    name: format!("ttl-chain:nocache{}:update_ttl;flush;flush|update_ttl", if two_block { "-2blk" } else { "-1blk" }),
                    cfg: small(false, true, if two_block { 8 } else { 5 }),
                    tables: t.clone(),
                    setup: vec![ins(K, kv), Op::Flush],
                    threads: vec![vec![Op::UpdateTtl { k: K, secs: 1000 }, Op::Flush, Op::Flush], vec![Op::UpdateTtl { k: K, secs: 2000 }]],
                    observe: vec![K],
                });
                v.push(Program {
                    name: format!("ttl-chain:nocache{}:update_ttl;tick;persist;flush|get", if two_block { "-2blk" } else { "-1blk" }),
                    cfg: small(false, true, if two_block { 8 } else { 5 }),
                    tables: t.clone(),
                    setup: vec![ins(K, kv), Op::Flush],
                    threads: vec![vec![Op::UpdateTtl { k: K, secs: 1000 }, Op::Tick, Op::Persist(K), Op::Flush], vec![Op::Get(K)]],
                    observe: vec![K],
                });
            }
            // a replacement that is dead on arrival (explicit old timestamp + short TTL: its expiry
            // instant lies in the past) racing a reader that looked the key up before: whatever
            // generation a stale-read retry lands on, an expired one is never returned
            for (rn, r) in [("get", Op::Get(K)), ("range", Op::Range { lo: 0, hi: 1, limit: 10 }), ("incr", Op::Incr { k: K, delta: 1, ts: 0, ttl: 0 }), ("cas", Op::Cas { k: K, expect: kv2, new: kv, ts: 0, ttl: 0 })] {
                if cache {
                    continue;
                }
                v.push(Program {
                    name: format!("ttl-dead:nocache{}:{rn}|insert_ttl@20;flush;flush", if two_block { "-2blk" } else { "-1blk" }),
                    cfg: small(false, true, if two_block { 8 } else { 5 }),
                    tables: t.clone(),
                    setup: vec![Op::Insert { k: K, v: kv, ts: 5, ttl: 0, bytes: false }, Op::Flush],
                    threads: vec![vec![r], vec![Op::Insert { k: K, v: kv2, ts: 20, ttl: 1, bytes: false }, Op::Flush, Op::Flush]],
                    observe: vec![K],
                });
            }
            for (rn, r) in [("get", Op::Get(K)), ("range", Op::Range { lo: 0, hi: 1, limit: 10 })] {
                v.push(Program {
                    name: format!("ttl-rewrite:{}{}:{rn}|flush;reuse;flush", if cache { "cache" } else { "nocache" }, if two_block { "-2blk" } else { "-1blk" }),
                    cfg: small(cache, true, if two_block { 6 } else { 4 }),
                    tables: t.clone(),
                    setup: vec![ins(K, kv), Op::Flush, Op::UpdateTtl { k: K, secs: 1000 }],
                    threads: vec![vec![r], vec![Op::Flush, ins(U, uv), Op::Flush]],
                    observe: vec![K, U],
                });
                v.push(Program {
                    name: format!("ttl-update:{}{}:{rn}|update_ttl;flush;reuse;flush", if cache { "cache" } else { "nocache" }, if two_block { "-2blk" } else { "-1blk" }),
                    cfg: small(cache, true, if two_block { 6 } else { 4 }),
                    tables: t.clone(),
                    setup: vec![ins(K, kv), Op::Flush],
                    threads: vec![vec![r], vec![Op::UpdateTtl { k: K, secs: 1000 }, Op::Flush, ins(U, uv), Op::Flush]],
                    observe: vec![K, U],
                });
            }
        }
    }
    v
}

/// C18: contention programs (termination is the oracle; linearizability rides along).
pub fn contention_programs(_thorough: bool) -> Vec<Program> {
    let t = Arc::new(tables());
    let mut v = Vec::new();
    let cfg = small(true, false, 6);
    // two concurrent flush callers with pending work
    v.push(Program {
        name: "contend:flush|flush".into(),
        cfg,
        tables: t.clone(),
        setup: vec![ins(K, V1), ins(U, VU1)],
        threads: vec![vec![Op::Flush], vec![Op::Flush]],
        observe: vec![K, U],
    });
    v.push(Program {
        name: "contend:write;flush|write;flush".into(),
        cfg,
        tables: t.clone(),
        setup: vec![ins(K, V1), Op::Flush],
        threads: vec![vec![ins(K, V1B), Op::Flush], vec![ins(U, VU1), Op::Flush]],
        observe: vec![K, U],
    });
    // flush racing a periodic tick
    v.push(Program {
        name: "contend:write;tick|flush".into(),
        cfg,
        tables: t.clone(),
        setup: vec![ins(K, V1), Op::Flush],
        threads: vec![vec![ins(K, V1B), Op::Tick], vec![Op::Flush]],
        observe: vec![K],
    });
    // full device: the overwrite cannot be written until the old extent is retired, which needs the successor durable
    let full = small(true, false, 3);
    v.push(Program {
        name: "contend:full-device:overwrite;flush|delete-other;flush".into(),
        cfg: full,
        tables: t.clone(),
        setup: vec![ins(K, V1), ins(U, VU1), Op::Flush],
        threads: vec![vec![ins(K, V2), Op::Flush], vec![Op::Delete { k: U, ts: 0 }, Op::Flush]],
        observe: vec![K, U],
    });
    v.push(Program {
        name: "contend:full-device:overwrite;flush|get".into(),
        cfg: full,
        tables: t.clone(),
        setup: vec![ins(K, V2), Op::Flush],
        threads: vec![vec![ins(K, V2B), Op::Flush], vec![Op::Get(K)]],
        observe: vec![K],
    });
    // failing device: every write / every fsync / one batch (three attempts) fails
    for fam in ["fault-writes", "fault-fsyncs", "fault-data3"] {
        v.push(Program {
            name: format!("{fam}:write;flush;flush|get"),
            cfg,
            tables: t.clone(),
            setup: vec![ins(K, V1), Op::Flush],
            threads: vec![vec![ins(K, V1B), Op::Flush, Op::Flush], vec![Op::Get(K)]],
            observe: vec![K],
        });
        v.push(Program {
            name: format!("{fam}:write;flush|write;flush"),
            cfg,
            tables: t.clone(),
            setup: vec![],
            threads: vec![vec![ins(K, V1), Op::Flush], vec![ins(U, VU1), Op::Flush]],
            observe: vec![K, U],
        });
    }
    // two workers (two shards): one worker's batch fails while the other allocates
    let mut two = small(true, false, 8);
    two.workers = 2;
    for fam in ["fault-data3", "contend2w"] {
        v.push(Program {
            name: format!("{fam}:2workers:write k;write u;flush"),
            cfg: two,
            tables: t.clone(),
            setup: vec![],
            threads: vec![vec![ins(K, V1), ins(U, VU1), Op::Flush]],
            observe: vec![K, U],
        });
        v.push(Program {
            name: format!("{fam}:2workers:write k;flush|write u;flush"),
            cfg: two,
            tables: t.clone(),
            setup: vec![],
            threads: vec![vec![ins(K, V1), Op::Flush], vec![ins(U, VU1), Op::Flush]],
            observe: vec![K, U],
        });
    }
    // reader inside a read while flush retires
    v.push(Program {
        name: "contend:reader|delete;flush;flush".into(),
        cfg,
        tables: t.clone(),
        setup: vec![ins(K, V2), Op::Flush],
        threads: vec![vec![Op::Get(K)], vec![Op::Delete { k: K, ts: 0 }, Op::Flush, Op::Flush]],
        observe: vec![K],
    });
    v
}

/// C19: writers racing the coordinator's round; nobody ever calls flush().
pub fn write_behind_programs() -> Vec<Program> {
    let t = Arc::new(tables());
    let mut v = Vec::new();
    let cfg = small(false, false, 12);
    let bodies: Vec<(&str, Vec<Op>, Vec<Op>)> = vec![
        ("insert;tick|insert-other", vec![ins(K, V1), Op::Tick], vec![ins(U, VU1)]),
        ("insert;tick|overwrite-same", vec![ins(K, V1), Op::Tick], vec![ins(K, V1B)]),
        ("insert;tick|insert-other;tick", vec![ins(K, V1), Op::Tick], vec![ins(U, VU1), Op::Tick]),
        ("delete;tick|insert-other", vec![Op::Delete { k: K, ts: 0 }, Op::Tick], vec![ins(U, VU1)]),
        ("overwrite;tick|delete-other", vec![ins(K, V2), Op::Tick], vec![Op::Delete { k: U, ts: 0 }]),
        ("tick|insert;insert-other", vec![Op::Tick], vec![ins(K, V1B), ins(U, VU1)]),
        // a delete / overwrite accepted while the key's FIRST write is being flushed by the round
        ("insert;tick|delete-same", vec![ins(K, V1), Op::Tick], vec![Op::Delete { k: K, ts: 0 }]),
        ("insert-other;tick|delete-other", vec![ins(U, VU1), Op::Tick], vec![Op::Delete { k: U, ts: 0 }]),
    ];
    for (name, a, b) in bodies {
        for (iname, setup) in [("empty", vec![]), ("both-durable", vec![ins(K, V1), ins(U, VU1), Op::Flush]), ("one-buffered", vec![ins(K, V1), Op::Flush, ins(U, VU1)])] {
            if (name.starts_with("delete") || name == "overwrite;tick|delete-other") && iname == "empty" {
                continue;
            }
            if name.contains("delete-same") && iname != "empty" {
                continue;
            }
            if name.starts_with("insert-other;tick") && iname != "empty" {
                continue;
            }
            v.push(Program {
                name: format!("wb:{iname}:{name}"),
                cfg,
                tables: t.clone(),
                setup,
                threads: vec![a.clone(), b.clone()],
                observe: vec![K, U],
            });
        }
    }
    v
}

/// C02 (schedules): a flush acknowledgement racing the background flusher.
pub fn ack_programs() -> Vec<Program> {
    let t = Arc::new(tables());
    let mut v = Vec::new();
    let cfg = small(true, false, 12);
    let cases: Vec<(&str, Vec<Op>, Vec<Vec<Op>>)> = vec![
        ("insert;tick|flush", vec![], vec![vec![ins(K, V1), Op::Tick], vec![Op::Flush]]),
        ("insert;tick;flush", vec![], vec![vec![ins(K, V1), Op::Tick, Op::Flush]]),
        ("overwrite;tick|flush", vec![ins(K, V1), Op::Flush], vec![vec![ins(K, V1B), Op::Tick], vec![Op::Flush]]),
        ("overwrite;tick;flush|get", vec![ins(K, V2), Op::Flush], vec![vec![ins(K, V2B), Op::Tick, Op::Flush], vec![Op::Get(K)]]),
        ("delete;tick|flush", vec![ins(K, V1), Op::Flush], vec![vec![Op::Delete { k: K, ts: 0 }, Op::Tick], vec![Op::Flush]]),
        ("insert;flush|insert-other;flush", vec![], vec![vec![ins(K, V1), Op::Flush], vec![ins(U, VU1), Op::Flush]]),
        ("insert;tick|insert-other;flush", vec![], vec![vec![ins(K, V1), Op::Tick], vec![ins(U, VU1), Op::Flush]]),
        ("delete;flush|reuse;flush", vec![ins(K, V2), Op::Flush], vec![vec![Op::Delete { k: K, ts: 0 }, Op::Flush], vec![ins(U, VU2), Op::Flush]]),
    ];
    for (name, setup, threads) in cases {
        v.push(Program { name: format!("ack:{name}"), cfg, tables: t.clone(), setup, threads, observe: vec![K, U] });
    }
    // two workers: one worker's retirement pass runs between the other's queueing of an
    // old extent and the write of the generation that replaces it
    let mut two = cfg;
    two.workers = 2;
    let cases2: Vec<(&str, Vec<Op>, Vec<Vec<Op>>)> = vec![
        ("2workers:overwrite;overwrite;flush|insert-other;flush", vec![ins(K, V1), Op::Flush], vec![vec![ins(K, V1B), ins(K, V1), Op::Flush], vec![ins(U, VU1), Op::Flush]]),
        ("2workers:overwrite;overwrite;tick|insert-other;tick", vec![ins(K, V1), Op::Flush], vec![vec![ins(K, V1B), ins(K, V1), Op::Tick], vec![ins(U, VU1), Op::Tick]]),
    ];
    for (name, setup, threads) in cases2 {
        v.push(Program { name: format!("ack:{name}"), cfg: two, tables: t.clone(), setup, threads, observe: vec![K, U] });
    }
    v
}

/// A clean close is an acknowledgement too: the last handle is dropped inside the
/// controlled phase while deletes / overwrites / inserts are still buffered, with one and
/// with two flush workers; every crash image after the close must hold everything.
pub fn close_programs(thorough: bool) -> Vec<Program> {
    let t = Arc::new(tables());
    let mut v = Vec::new();
    let one = small(true, false, 12);
    let mut two = one;
    two.workers = 2;
    let cases: Vec<(&str, Vec<Op>, Vec<Op>)> = vec![
        ("delete;delete", vec![ins(K, V1), ins(U, VU1), Op::Flush], vec![Op::Delete { k: K, ts: 0 }, Op::Delete { k: U, ts: 0 }]),
        ("overwrite;delete", vec![ins(K, V1), ins(U, VU1), Op::Flush], vec![ins(K, V1B), Op::Delete { k: U, ts: 0 }]),
        ("insert;insert", vec![], vec![ins(K, V1), ins(U, VU1)]),
        ("delete;tick;delete", vec![ins(K, V1), ins(U, VU1), Op::Flush], vec![Op::Delete { k: K, ts: 0 }, Op::Tick, Op::Delete { k: U, ts: 0 }]),
        ("insert;tick;overwrite", vec![ins(U, VU1), Op::Flush], vec![ins(K, V1), Op::Tick, ins(U, VU2)]),
    ];
    for (cfg, w) in [(two, "2workers"), (one, "1worker")] {
        for (name, setup, ops) in cases.iter().cloned() {
            v.push(Program { name: format!("ack:close:{w}:{name}"), cfg, tables: t.clone(), setup, threads: vec![ops], observe: vec![] });
        }
    }
    // three workers, one buffered delete / overwrite in each shard: the final retirement passes of
    // three workers overlap (a pass that finds the queue busy must not lose what it queued)
    let mut t3 = tables();
    t3.keys.push(b"m".to_vec());
    let t3 = Arc::new(t3);
    let mut three = one;
    three.workers = 3;
    const M: u8 = 2;
    let cases3: Vec<(&str, Vec<Op>, Vec<Op>)> = vec![
        ("delete;delete;delete", vec![ins(K, V1), ins(U, VU1), ins(M, V1), Op::Flush], vec![Op::Delete { k: K, ts: 0 }, Op::Delete { k: U, ts: 0 }, Op::Delete { k: M, ts: 0 }]),
        ("overwrite;delete;overwrite", vec![ins(K, V1), ins(U, VU1), ins(M, V1), Op::Flush], vec![ins(K, V1B), Op::Delete { k: U, ts: 0 }, ins(M, V1B)]),
    ];
    for (name, setup, ops) in cases3 {
        if !thorough {
            // 30 k schedules at bound 2, 25 ms each: thorough tier only
            break;
        }
        v.push(Program { name: format!("ack:close:3workers:{name}"), cfg: three, tables: t3.clone(), setup, threads: vec![ops], observe: vec![] });
    }
    v
}

/// Flush acknowledgements racing the background flusher *while record writes fail*: the
/// next 1 / 3 / 4 writes into the data area fail (one in-place retry; a whole batch, i.e.
/// all three attempts; a batch and the first attempt of its successor), then the device
/// works again. A flush that returns Ok is an acknowledgement like any other.
pub fn ack_fault_programs() -> Vec<Program> {
    let t = Arc::new(tables());
    let mut v = Vec::new();
    let cfg = small(true, false, 12);
    let cases: Vec<(&str, Vec<Op>, Vec<Vec<Op>>)> = vec![
        ("insert;tick|flush", vec![], vec![vec![ins(K, V1), Op::Tick], vec![Op::Flush]]),
        ("insert;tick;flush", vec![], vec![vec![ins(K, V1), Op::Tick, Op::Flush]]),
        ("overwrite;tick|flush", vec![ins(K, V1), Op::Flush], vec![vec![ins(K, V1B), Op::Tick], vec![Op::Flush]]),
        ("overwrite;tick|flush;flush", vec![ins(K, V1), Op::Flush], vec![vec![ins(K, V1B), Op::Tick], vec![Op::Flush, Op::Flush]]),
        ("insert;tick|insert-other;flush", vec![], vec![vec![ins(K, V1), Op::Tick], vec![ins(U, VU1), Op::Flush]]),
        ("insert;flush|insert-other;flush", vec![], vec![vec![ins(K, V1), Op::Flush], vec![ins(U, VU1), Op::Flush]]),
    ];
    for n in [3u32, 1, 4] {
        for (name, setup, threads) in cases.iter().cloned() {
            v.push(Program { name: format!("ack:fault-data{n}:{name}"), cfg, tables: t.clone(), setup, threads, observe: vec![K, U] });
        }
    }
    v
}
