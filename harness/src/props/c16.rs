//! C16 — (1) cache on/off differential over SEQ paths (done through `Suite::shadow`),
//! (2) explicit-state exploration of the real `ClockCache` against an exact CLOCK
//! reference model with small watermarks.

use crate::util::{hash64, par_for_each, Deadline, Report};
use bytes::Bytes;
use feoxdb::core::cache::ClockCache;
use feoxdb::core::record::Record;
use feoxdb::stats::Statistics;
use serde_json::json;
use std::collections::{BTreeMap, HashSet};
use std::sync::atomic::{AtomicBool, AtomicU64, Ordering};
use std::sync::{Arc, Mutex};

const MB: usize = 1024 * 1024;
const BUCKETS: usize = 16384;

#[derive(Clone, Copy, Debug, PartialEq, Eq, Hash)]
enum Op {
    Insert(u8, u8),         // key, value id (unversioned)
    InsertFor(u8, u8, u8),  // key, value id, generation
    Get(u8),
    GetFor(u8, u8),
    Remove(u8),
    RemoveFor(u8, u8),
    TakeEntry(u8, u8),
    Evict,
    Clear,
    Watermarks(usize, usize),
    /// Drop every strong reference to a generation (its weak pointers die).
    Kill(u8),
    /// Mark a generation superseded (refcount 0), as an update or delete does.
    Supersede(u8),
}

// generations: 0 = ts 10, 1 = ts 20, 2 = ts 5 (older)
const GEN_TS: [u64; 3] = [10, 20, 5];

fn keys() -> Vec<Vec<u8>> {
    // keys 0 and 1 share a bucket; keys 2 and 3 live in two other buckets
    let mut picked: Vec<Vec<u8>> = Vec::new();
    let mut buckets: Vec<usize> = Vec::new();
    let mut i = 0u32;
    while picked.len() < 3 {
        let k = format!("k{i}").into_bytes();
        let b = feoxdb::utils::hash::murmur3_32(&k, 0) as usize % BUCKETS;
        if !buckets.contains(&b) {
            buckets.push(b);
            picked.push(k);
        }
        i += 1;
    }
    // a fourth bucket (index 3 after the colliding key is spliced in at 1: index 4)
    loop {
        let k = format!("n{i}").into_bytes();
        let b = feoxdb::utils::hash::murmur3_32(&k, 0) as usize % BUCKETS;
        i += 1;
        if !buckets.contains(&b) {
            buckets.push(b);
            picked.push(k);
            break;
        }
    }
    loop {
        let k = format!("c{i}").into_bytes();
        let b = feoxdb::utils::hash::murmur3_32(&k, 0) as usize % BUCKETS;
        if b == buckets[0] {
            // index 1: the quick alphabet (first three keys) contains the colliding pair
            picked.insert(1, k);
            break;
        }
        i += 1;
    }
    picked
}

fn value(id: u8) -> Bytes {
    // id 0: 400 KB, id 1: 300 KB, id 2: 10 bytes, id 3: 600 KB (refused: larger than high/4 at 2 MB)
    // id 4: 2.2 MB (just under a quarter of a 10 MB high watermark)
    static VALUES: std::sync::OnceLock<Vec<Bytes>> = std::sync::OnceLock::new();
    let all = VALUES.get_or_init(|| {
        (0..5u8)
            .map(|id| {
                let len = match id {
                    0 => 400 * 1024,
                    1 => 300 * 1024,
                    2 => 10,
                    4 => 2200 * 1024,
                    _ => 600 * 1024,
                };
                Bytes::from(vec![0x40 + id; len])
            })
            .collect()
    });
    all[(id as usize).min(4)].clone()
}

fn alphabet(thorough: bool) -> Vec<Op> {
    let mut v = Vec::new();
    let nk = if thorough { 4 } else { 3 };
    for k in 0..nk {
        v.push(Op::Insert(k, 0));
        v.push(Op::Get(k));
        v.push(Op::Remove(k));
    }
    v.push(Op::Insert(0, 1));
    v.push(Op::Insert(0, 2));
    v.push(Op::Insert(1, 3));
    for g in 0..3u8 {
        v.push(Op::InsertFor(0, 1, g));
        v.push(Op::GetFor(0, g));
        v.push(Op::RemoveFor(0, g));
    }
    v.push(Op::InsertFor(1, 0, 0));
    v.push(Op::InsertFor(2, 0, 1));
    v.push(Op::TakeEntry(0, 0));
    v.push(Op::TakeEntry(0, 1));
    v.push(Op::Evict);
    v.push(Op::Clear);
    v.push(Op::Watermarks(2, 1));
    v.push(Op::Watermarks(1, 2)); // invalid: ignored
    v.push(Op::Watermarks(100, 50));
    v.push(Op::Kill(0));
    v.push(Op::Supersede(1));
    v
}

// ------------------------------------------------------------------ reference model

#[derive(Clone, Debug, PartialEq, Eq)]
struct MEntry {
    key: u8,
    value: u8,
    gen: Option<u8>,
    referenced: bool,
    size: usize,
}

#[derive(Clone, Debug)]
struct MCache {
    buckets: BTreeMap<usize, Vec<MEntry>>,
    hand: usize,
    usage: usize,
    high: usize,
    low: usize,
    /// generation state: alive (strong refs exist), superseded
    alive: [bool; 3],
    superseded: [bool; 3],
    overhead: usize,
    bucket_of: Vec<usize>,
    key_len: Vec<usize>,
}

impl MCache {
    fn new(keys: &[Vec<u8>]) -> MCache {
        MCache {
            buckets: BTreeMap::new(),
            hand: 0,
            usage: 0,
            high: 100 * MB,
            low: 50 * MB,
            alive: [true; 3],
            superseded: [false, false, false],
            overhead: ClockCache::verif_entry_overhead(),
            bucket_of: keys.iter().map(|k| feoxdb::utils::hash::murmur3_32(k, 0) as usize % BUCKETS).collect(),
            key_len: keys.iter().map(|k| k.len()).collect(),
        }
    }

    fn evict(&mut self) {
        if self.usage <= self.low {
            return;
        }
        let mut scans = 0;
        let mut hand = self.hand;
        while self.usage > self.low && scans < 3 {
            for _ in 0..BUCKETS {
                let bi = hand % BUCKETS;
                hand = hand.wrapping_add(1);
                if let Some(bucket) = self.buckets.get_mut(&bi) {
                    let mut i = 0;
                    while i < bucket.len() {
                        if bucket[i].referenced {
                            bucket[i].referenced = false;
                            i += 1;
                        } else {
                            let e = bucket.remove(i);
                            self.usage -= e.size;
                        }
                        if self.usage <= self.low {
                            break;
                        }
                    }
                }
                if self.usage <= self.low {
                    break;
                }
            }
            scans += 1;
        }
        self.hand = hand;
    }

    fn can_replace(&self, cached: Option<u8>, incoming: Option<u8>) -> bool {
        let Some(inc) = incoming else { return true };
        if self.superseded[inc as usize] {
            return false;
        }
        let Some(c) = cached else { return true };
        if c == inc {
            return true;
        }
        !self.alive[c as usize] || self.superseded[c as usize] || GEN_TS[c as usize] < GEN_TS[inc as usize]
    }

    fn insert(&mut self, key: u8, value_id: u8, gen: Option<u8>) {
        let size = self.key_len[key as usize] + value(value_id).len() + self.overhead;
        if size > self.high / 4 {
            return;
        }
        if self.usage + size > self.high {
            self.evict();
        }
        let b = self.bucket_of[key as usize];
        let can = {
            let bucket = self.buckets.entry(b).or_default();
            bucket.iter().find(|e| e.key == key).map(|e| e.gen)
        };
        if let Some(cached_gen) = can {
            if !self.can_replace(cached_gen, gen) {
                return;
            }
            let bucket = self.buckets.get_mut(&b).unwrap();
            let e = bucket.iter_mut().find(|e| e.key == key).unwrap();
            let old = e.size;
            e.value = value_id;
            e.gen = gen;
            e.size = size;
            e.referenced = true;
            self.usage = self.usage + size - old;
            return;
        }
        self.buckets.get_mut(&b).unwrap().push(MEntry { key, value: value_id, gen, referenced: true, size });
        self.usage += size;
    }

    fn get(&mut self, key: u8, gen: Option<u8>) -> Option<u8> {
        let b = self.bucket_of[key as usize];
        let bucket = self.buckets.get_mut(&b)?;
        for e in bucket.iter_mut() {
            if e.key != key {
                continue;
            }
            let m = match (gen, e.gen) {
                (Some(x), Some(c)) => x == c,
                (Some(_), None) => false,
                (None, _) => true,
            };
            if m {
                e.referenced = true;
                return Some(e.value);
            }
        }
        None
    }

    fn remove(&mut self, key: u8, gen: Option<u8>) -> Option<u8> {
        let b = self.bucket_of[key as usize];
        let bucket = self.buckets.get_mut(&b)?;
        let pos = bucket.iter().position(|e| e.key == key && gen.is_none_or(|g| e.gen == Some(g)))?;
        let e = bucket.remove(pos);
        self.usage -= e.size;
        Some(e.value)
    }

    fn state_key(&self) -> u64 {
        let mut p = Vec::new();
        for (b, es) in &self.buckets {
            if es.is_empty() {
                continue;
            }
            p.extend_from_slice(&b.to_le_bytes());
            for e in es {
                p.extend_from_slice(&[e.key, e.value, e.gen.map_or(9, |g| g), e.referenced as u8]);
            }
            p.push(0xff);
        }
        p.extend_from_slice(&(self.hand % BUCKETS).to_le_bytes());
        p.extend_from_slice(&self.high.to_le_bytes());
        p.extend_from_slice(&self.low.to_le_bytes());
        p.extend_from_slice(&[self.alive[0] as u8, self.alive[1] as u8, self.alive[2] as u8]);
        p.extend_from_slice(&[self.superseded[0] as u8, self.superseded[1] as u8, self.superseded[2] as u8]);
        hash64(&[&p])
    }
}

// ------------------------------------------------------------------ real cache driver

struct Real {
    cache: ClockCache,
    stats: Arc<Statistics>,
    gens: [Option<Arc<Record>>; 3],
    /// keeps the allocation of killed generations from being reused (pointer identity)
    _graveyard: Vec<Vec<u8>>,
    keys: Vec<Vec<u8>>,
}

impl Real {
    fn new(keys: &[Vec<u8>]) -> Real {
        let stats = Arc::new(Statistics::new());
        let gens = [0, 1, 2].map(|i| Some(Arc::new(Record::new(b"gen".to_vec(), vec![1], GEN_TS[i]))));
        Real { cache: ClockCache::new(stats.clone()), stats, gens, _graveyard: Vec::new(), keys: keys.to_vec() }
    }
}

/// Result of one op for comparison: Some(value id) / None for lookups, None otherwise.
fn apply_real(r: &mut Real, op: Op) -> Option<Option<u8>> {
    let vid = |b: Option<Bytes>| b.map(|b| b[0] - 0x40);
    match op {
        Op::Insert(k, v) => {
            r.cache.insert(r.keys[k as usize].clone(), value(v));
            None
        }
        Op::InsertFor(k, v, g) => {
            if let Some(rec) = r.gens[g as usize].as_ref() {
                r.cache.verif_insert_for_record(r.keys[k as usize].clone(), value(v), rec);
            }
            None
        }
        Op::Get(k) => Some(vid(r.cache.get(&r.keys[k as usize]))),
        Op::GetFor(k, g) => r.gens[g as usize].as_ref().map(|rec| vid(r.cache.verif_get_for_record(&r.keys[k as usize], rec))),
        Op::Remove(k) => {
            r.cache.remove(&r.keys[k as usize]);
            None
        }
        Op::RemoveFor(k, g) => {
            if let Some(rec) = r.gens[g as usize].as_ref() {
                r.cache.verif_remove_for_record(&r.keys[k as usize], rec);
            }
            None
        }
        Op::TakeEntry(k, g) => {
            r.gens[g as usize].as_ref().map(|rec| vid(r.cache.verif_take_record_entry(&r.keys[k as usize], rec)))
        }
        Op::Evict => {
            r.cache.evict_entries();
            None
        }
        Op::Clear => {
            r.cache.clear();
            None
        }
        Op::Watermarks(h, l) => {
            r.cache.adjust_watermarks(h, l);
            None
        }
        Op::Kill(g) => {
            r.gens[g as usize] = None;
            None
        }
        Op::Supersede(g) => {
            if let Some(rec) = r.gens[g as usize].as_ref() {
                rec.refcount.store(0, Ordering::Release);
            }
            None
        }
    }
}

fn apply_model(m: &mut MCache, op: Op) -> Option<Option<u8>> {
    match op {
        Op::Insert(k, v) => {
            m.insert(k, v, None);
            None
        }
        Op::InsertFor(k, v, g) => {
            if m.alive[g as usize] {
                m.insert(k, v, Some(g));
            }
            None
        }
        Op::Get(k) => Some(m.get(k, None)),
        Op::GetFor(k, g) => m.alive[g as usize].then(|| m.get(k, Some(g))),
        Op::Remove(k) => {
            m.remove(k, None);
            None
        }
        Op::RemoveFor(k, g) => {
            if m.alive[g as usize] {
                m.remove(k, Some(g));
            }
            None
        }
        Op::TakeEntry(k, g) => m.alive[g as usize].then(|| m.remove(k, Some(g))),
        Op::Evict => {
            m.evict();
            None
        }
        Op::Clear => {
            m.buckets.clear();
            m.usage = 0;
            m.hand = 0;
            None
        }
        Op::Watermarks(h, l) => {
            if h > l && h * MB <= 1024 * MB {
                m.high = h * MB;
                m.low = l * MB;
                if m.usage > m.high {
                    m.evict();
                }
            }
            None
        }
        Op::Kill(g) => {
            m.alive[g as usize] = false;
            None
        }
        Op::Supersede(g) => {
            if m.alive[g as usize] {
                m.superseded[g as usize] = true;
            }
            None
        }
    }
}

/// Execute `hist` on a fresh real cache and a fresh model, comparing after each step.
fn run_hist(keys: &[Vec<u8>], hist: &[Op], init: (usize, usize)) -> Result<(u64, MCache), String> {
    let mut real = Real::new(keys);
    let mut model = MCache::new(keys);
    // every history starts with small watermarks so that four entries cross the high mark
    real.cache.adjust_watermarks(init.0, init.1);
    apply_model(&mut model, Op::Watermarks(init.0, init.1));
    crate::util::set_context(json!({"engine": "c16-fsm", "history": format!("{hist:?}"), "watermarks_mb": [init.0, init.1]}));
    let mut removed_unversioned: HashSet<u8> = HashSet::new();
    for (i, &op) in hist.iter().enumerate() {
        // facts needed by the policy-independent oracle
        let before = real.cache.verif_entries();
        let usage_before = real.stats.cache_memory.load(Ordering::Relaxed);
        let low_before = real.cache.stats().low_watermark;
        let got = {
            let _call = crate::util::in_call("cache call");
            std::panic::catch_unwind(std::panic::AssertUnwindSafe(|| apply_real(&mut real, op))).map_err(|_| format!("step {i} {op:?} panicked"))?
        };
        let want = apply_model(&mut model, op);
        let ctx = |msg: String| format!("after {:?} (step {i}): {msg}", op);
        if got != want {
            return Err(ctx(format!("lookup returned {got:?}, CLOCK reference says {want:?}")));
        }
        let entries = real.cache.verif_entries();
        let reported = real.stats.cache_memory.load(Ordering::Relaxed);
        let held: usize = entries.iter().map(|e| e.size).sum();
        if reported != held {
            return Err(ctx(format!("reported cache memory {reported} but the entries held sum to {held}")));
        }
        if reported != model.usage {
            return Err(ctx(format!("reported cache memory {reported}, reference {}", model.usage)));
        }
        // entry-by-entry equality with the reference
        let mut want_entries = Vec::new();
        for (b, es) in &model.buckets {
            for e in es {
                want_entries.push((*b, keys[e.key as usize].clone(), e.size, e.referenced));
            }
        }
        let got_entries: Vec<_> = entries.iter().map(|e| (e.bucket, e.key.clone(), e.size, e.referenced)).collect();
        if got_entries != want_entries {
            return Err(ctx(format!(
                "entries {:?} differ from the CLOCK reference {:?}",
                got_entries.iter().map(|e| (e.0, crate::util::show(&e.1), e.2, e.3)).collect::<Vec<_>>(),
                want_entries.iter().map(|e| (e.0, crate::util::show(&e.1), e.2, e.3)).collect::<Vec<_>>()
            )));
        }
        // policy-independent clauses of the property
        match op {
            Op::Remove(k) => {
                removed_unversioned.insert(k);
            }
            Op::Insert(k, _) | Op::InsertFor(k, _, _) => {
                removed_unversioned.remove(&k);
            }
            Op::Get(k) => {
                if removed_unversioned.contains(&k) && got != Some(None) {
                    return Err(ctx("a hit followed an explicit remove".into()));
                }
            }
            Op::Evict | Op::Watermarks(..) => {
                let low = real.cache.stats().low_watermark;
                let ran = usage_before > low_before.min(low) && matches!(op, Op::Evict);
                if ran && reported > low {
                    return Err(ctx(format!("eviction left usage {reported} above the low watermark {low}")));
                }
                if matches!(op, Op::Evict) {
                    let unref: usize = before.iter().filter(|e| !e.referenced).map(|e| e.size).sum();
                    let need = usage_before.saturating_sub(low_before);
                    if unref >= need {
                        for e in before.iter().filter(|e| e.referenced) {
                            if !entries.iter().any(|x| x.key == e.key && x.bucket == e.bucket) {
                                return Err(ctx(format!(
                                    "recently referenced entry {} was evicted although unreferenced entries sufficed",
                                    crate::util::show(&e.key)
                                )));
                            }
                        }
                    }
                }
            }
            _ => {}
        }
        if real.cache.verif_hand() % BUCKETS != model.hand % BUCKETS {
            return Err(ctx(format!("clock hand at {} but reference at {}", real.cache.verif_hand() % BUCKETS, model.hand % BUCKETS)));
        }
    }
    Ok((model.state_key(), model))
}

/// The eviction policy needs long histories (fill, sweep, touch, refill, sweep again)
/// over few operations: colliding and non-colliding keys, lookups, explicit sweeps.
fn eviction_alphabet(thorough: bool) -> Vec<Op> {
    let mut v = Vec::new();
    for k in 0..if thorough { 4 } else { 3 } {
        v.push(Op::Insert(k, 0));
        v.push(Op::Get(k));
    }
    v.push(Op::Insert(0, 1));
    v.push(Op::Evict);
    v
}

pub fn run_fsm(tier: &str, budget_s: f64, report: &mut Report) {
    let thorough = tier == "thorough";
    run_fsm_with("general", alphabet(thorough), if thorough { 6 } else { 4 }, budget_s * 0.5, (2, 1), report);
    if report.violations.is_empty() {
        run_fsm_with("eviction", eviction_alphabet(thorough), if thorough { 14 } else { 10 }, budget_s * 0.3, (2, 1), report);
    }
    if report.violations.is_empty() {
        run_fsm_narrow(tier, budget_s * 0.2, report);
    }
}

/// Watermarks less than a quarter of the high mark apart (10 MB / 9 MB): an entry that grows in place
/// can carry the usage past the high mark although the check before the insert found nothing to evict
/// (usage at or below the low mark). Five keys, values of 10 bytes and 2.2 MB.
pub fn run_fsm_narrow(tier: &str, budget_s: f64, report: &mut Report) {
    let thorough = tier == "thorough";
    let mut ops = Vec::new();
    for k in 0..5u8 {
        ops.push(Op::Insert(k, 4));
    }
    ops.push(Op::Insert(0, 2));
    ops.push(Op::Insert(1, 2));
    ops.push(Op::Get(0));
    ops.push(Op::Evict);
    if thorough {
        ops.push(Op::Get(1));
        ops.push(Op::Remove(2));
        ops.push(Op::InsertFor(0, 4, 0));
    }
    run_fsm_with("narrow-band", ops, if thorough { 9 } else { 7 }, budget_s, (10, 9), report);
}

fn run_fsm_with(label: &str, ops: Vec<Op>, depth: usize, budget_s: f64, init: (usize, usize), report: &mut Report) {
    let keys = keys();
    let dl = Deadline::new(budget_s);
    let threads = crate::util::worker_threads();
    let seen: Mutex<HashSet<u64>> = Mutex::new(HashSet::new());
    let transitions = AtomicU64::new(0);
    let stop = AtomicBool::new(false);
    let (k0, _) = run_hist(&keys, &[], init).expect("empty history");
    seen.lock().unwrap().insert(k0);
    let mut level: Vec<Vec<Op>> = vec![vec![]];
    let mut completed = 0;
    let mut complete = true;
    for d in 0..depth {
        let next: Mutex<Vec<Vec<Op>>> = Mutex::new(Vec::new());
        let bad: Mutex<Vec<(Vec<Op>, String)>> = Mutex::new(Vec::new());
        par_for_each(std::mem::take(&mut level), threads, &stop, |_, hist| {
            for &op in &ops {
                // the first three levels do not depend on the machine's speed
                if d >= 3 && dl.expired() {
                    stop.store(true, Ordering::Relaxed);
                    return;
                }
                let mut h = hist.clone();
                h.push(op);
                transitions.fetch_add(1, Ordering::Relaxed);
                match run_hist(&keys, &h, init) {
                    Ok((k, _)) => {
                        if seen.lock().unwrap().insert(k) {
                            next.lock().unwrap().push(h);
                        }
                    }
                    Err(e) => {
                        let mut b = bad.lock().unwrap();
                        if b.len() < 8 {
                            b.push((h, e));
                        }
                    }
                }
            }
        });
        let mut bad = bad.into_inner().unwrap();
        bad.sort_by_key(|(h, _)| h.len());
        for (h, e) in bad.into_iter().take(4) {
            report.violation(
                format!("cachefsm|{:?}|{}", h, e.chars().take(80).collect::<String>()),
                format!("cache history {h:?}\n{e}"),
                json!({"engine":"c16-fsm","history":format!("{h:?}")}),
            );
        }
        if stop.load(Ordering::Relaxed) {
            complete = false;
            break;
        }
        completed = d + 1;
        level = next.into_inner().unwrap();
        level.sort_by_key(|h| format!("{h:?}"));
        if let Some(h) = level.get(level.len() / 3) {
            report.sample(json!({"cache_history": format!("{h:?}")}));
        }
        if level.is_empty() {
            completed = depth;
            break;
        }
    }
    let states = seen.lock().unwrap().len() as u64;
    let t = transitions.load(Ordering::Relaxed);
    report.add("states", states);
    report.add("transitions", t);
    report.add("traces_validated_against_impl", t);
    report.set(
        &format!("cache_fsm_{label}"),
        json!({"alphabet": ops.len(), "depth_bound": depth, "depth_completed": completed, "complete": complete, "states": states, "transitions": t}),
    );
    if completed < 3 {
        report.machinery(format!("cache FSM ({label}) exploration hit its time cap before depth 3"));
    }
}

/// Sampling supplement (NOT part of the exhaustive claim, reported separately): the cache
/// takes its bucket locks itself and has no scheduling points inside, so a window between
/// two lock acquisitions of one call is invisible to the controlled scheduler. Four
/// free-running threads insert / remove / get keys of their own that all share one bucket;
/// a lookup right after the thread's own remove must miss, and at the end the cache must
/// hold nothing.
pub fn stress_supplement(report: &mut Report, seconds: f64) {
    crate::util::set_home_cpu(None);
    // twelve keys in one bucket
    let mut keys: Vec<Vec<u8>> = Vec::new();
    let mut i = 0u32;
    let target = feoxdb::utils::hash::murmur3_32(b"k0", 0) as usize % BUCKETS;
    while keys.len() < 12 {
        let k = format!("s{i}").into_bytes();
        if feoxdb::utils::hash::murmur3_32(&k, 0) as usize % BUCKETS == target {
            keys.push(k);
        }
        i += 1;
    }
    let stats = Arc::new(Statistics::new());
    let cache = ClockCache::new(stats.clone());
    let dl = Deadline::new(seconds);
    let bad: Mutex<Option<String>> = Mutex::new(None);
    let rounds = AtomicU64::new(0);
    std::thread::scope(|sc| {
        for t in 0..4usize {
            let (cache, keys, bad, dl, rounds) = (&cache, &keys, &bad, &dl, &rounds);
            sc.spawn(move || {
                let mine: Vec<&Vec<u8>> = keys.iter().skip(t * 3).take(3).collect();
                let mut n = 0u64;
                while !dl.expired() && bad.lock().unwrap().is_none() {
                    for k in &mine {
                        cache.insert((*k).clone(), Bytes::from_static(b"cached value"));
                    }
                    for k in &mine {
                        cache.remove(k);
                        if let Some(v) = cache.get(k) {
                            *bad.lock().unwrap() = Some(format!(
                                "C16: get({}) returned {:?} right after this thread's own remove of that key (no other thread touches it); found by the free-running sampling supplement",
                                crate::util::show(k),
                                crate::util::show(&v)
                            ));
                            return;
                        }
                    }
                    n += 1;
                }
                rounds.fetch_add(n, Ordering::Relaxed);
            });
        }
    });
    let left = stats.cache_memory.load(Ordering::Relaxed);
    let mut msg = bad.into_inner().unwrap();
    if msg.is_none() && left != 0 {
        msg = Some(format!("C16: every entry was removed by the thread that inserted it, but the cache still reports {left} bytes; found by the free-running sampling supplement"));
    }
    if let Some(m) = msg {
        report.violation("cache|stress-supplement|hit after remove".to_string(), m, json!({"engine":"c16-stress"}));
    }
    // second phase: clear() walking the buckets while two threads insert and remove keys spread over many
    // buckets; once everybody has stopped, the reported memory must be the total of the entries held
    let stats2 = Arc::new(Statistics::new());
    let cache2 = ClockCache::new(stats2.clone());
    let dl2 = Deadline::new(seconds * 0.4);
    let clears = AtomicU64::new(0);
    let spread: Vec<Vec<u8>> = (0..2048u32).map(|i| format!("spread-{i}").into_bytes()).collect();
    std::thread::scope(|sc| {
        for t in 0..2usize {
            let (cache2, spread, dl2) = (&cache2, &spread, &dl2);
            sc.spawn(move || {
                let mut i = t;
                while !dl2.expired() {
                    let k = &spread[i % spread.len()];
                    cache2.insert(k.clone(), Bytes::from_static(b"a cached value of some length"));
                    if i % 3 == 0 {
                        cache2.remove(&spread[(i / 3) % spread.len()]);
                    }
                    i += 2;
                }
            });
        }
        let (cache2, dl2, clears) = (&cache2, &dl2, &clears);
        sc.spawn(move || {
            while !dl2.expired() {
                cache2.clear();
                clears.fetch_add(1, Ordering::Relaxed);
            }
        });
    });
    let held: usize = cache2.verif_entries().iter().map(|e| e.size).sum();
    let reported = stats2.cache_memory.load(Ordering::Relaxed);
    if reported != held && report.violations.is_empty() {
        report.violation(
            "cache|stress-supplement|accounting after clear".to_string(),
            format!("C16: after clear() raced inserts and removes and everybody stopped, the cache reports {reported} bytes but holds entries of {held} bytes in total; found by the free-running sampling supplement"),
            json!({"engine":"c16-stress"}),
        );
    }
    report.set("sampling_supplement", json!({"rounds": rounds.load(Ordering::Relaxed), "threads": 4, "keys_in_one_bucket": 12, "clears_racing_inserts": clears.load(Ordering::Relaxed), "note": "free-running threads, not exhaustive, not counted in states/transitions"}));
}
