//! C07 — programs: all pairs (and triples) of short op sequences on one shared key.

use super::schedprops::Program;
use crate::suites::{FUT, TS_A, TS_B};
use crate::sut::{Cfg, Op, Tables};
use std::sync::Arc;

pub const TS_C: u64 = 30;
pub const V_X: u8 = 0;
pub const V_Y: u8 = 1;
pub const V_CNT: u8 = 2;
pub const V_JSON: u8 = 3;
pub const V_CNT2: u8 = 4;
pub const V_Z: u8 = 5;

pub fn tables() -> Tables {
    Tables {
        keys: vec![b"a".to_vec(), b"b".to_vec()],
        values: vec![
            b"x".to_vec(),
            b"y".to_vec(),
            7i64.to_le_bytes().to_vec(),
            br#"{"a":1}"#.to_vec(),
            100i64.to_le_bytes().to_vec(),
            b"z".to_vec(),
        ],
        bounds: vec![b"".to_vec(), vec![0xff; 4]],
        patches: vec![br#"[{"op":"add","path":"/b","value":2}]"#.to_vec(), br#"[{"op":"replace","path":"/a","value":5}]"#.to_vec()],
    }
}

fn ins(v: u8, ts: u64) -> Op {
    Op::Insert { k: 0, v, ts, ttl: 0, bytes: false }
}

/// (name, initial setup) — the state of key `a` before the threads start
fn initials() -> Vec<(&'static str, Vec<Op>)> {
    vec![
        ("absent", vec![]),
        ("x@5", vec![ins(V_X, TS_A)]),
        ("cnt@20", vec![ins(V_CNT, TS_B)]),
        ("json@5", vec![ins(V_JSON, TS_A)]),
    ]
}

/// single-op thread bodies
fn atoms() -> Vec<Op> {
    vec![
        Op::Get(0),
        ins(V_X, 0),
        ins(V_Y, TS_B),
        ins(V_Z, FUT),
        Op::Insert { k: 0, v: V_Y, ts: 0, ttl: 0, bytes: true },
        // the zero-copy variant with the SAME explicit timestamp as the plain insert above: of two racing
        // writes with equal timestamps exactly one may be accepted
        Op::Insert { k: 0, v: V_Z, ts: TS_B, ttl: 0, bytes: true },
        Op::Delete { k: 0, ts: 0 },
        Op::Delete { k: 0, ts: TS_C },
        Op::Cas { k: 0, expect: V_X, new: V_Y, ts: 0, ttl: 0 },
        Op::Cas { k: 0, expect: V_X, new: V_Z, ts: TS_C, ttl: 0 },
        Op::Incr { k: 0, delta: 1, ts: 0, ttl: 0 },
        Op::Incr { k: 0, delta: 10, ts: TS_C, ttl: 0 },
        Op::Ifa { k: 0, v: V_X },
        Op::Ifa { k: 0, v: V_Y },
        Op::Patch { k: 0, p: 0, ts: 0 },
        Op::Patch { k: 0, p: 1, ts: TS_C },
    ]
}

/// two-op thread bodies
fn pairs_of_ops() -> Vec<Vec<Op>> {
    vec![
        vec![Op::Delete { k: 0, ts: TS_C }, ins(V_CNT2, TS_B)], // delete then re-create with a *lower* timestamp (ABA)
        vec![Op::Delete { k: 0, ts: 0 }, ins(V_X, 0)],
        vec![ins(V_Y, 0), Op::Get(0)],
        vec![Op::Delete { k: 0, ts: TS_C }, ins(V_JSON, TS_A + 1)],
        vec![Op::Incr { k: 0, delta: 1, ts: 0, ttl: 0 }, Op::Incr { k: 0, delta: 1, ts: 0, ttl: 0 }],
        vec![Op::Delete { k: 0, ts: TS_C }, ins(V_X, TS_A + 1)],
    ]
}

fn relevant(init: &str, op: &Op) -> bool {
    // drop combinations that can only fail trivially (e.g. patching a non-JSON value)
    match op {
        Op::Patch { .. } => init == "json@5" || init == "absent",
        Op::Incr { .. } => init != "json@5" && init != "x@5",
        Op::Cas { .. } => init == "x@5" || init == "absent",
        _ => true,
    }
}

pub fn programs(cfg: Cfg, thorough: bool) -> Vec<Program> {
    let t = Arc::new(tables());
    let mut v = Vec::new();
    let atoms = atoms();
    let two = pairs_of_ops();
    let mut bodies: Vec<Vec<Op>> = atoms.iter().map(|o| vec![*o]).collect();
    bodies.extend(two.iter().cloned());
    for (iname, setup) in initials() {
        let mut setup = setup.clone();
        if cfg.persistent {
            // the initial generation is on disk only
            setup.push(Op::Flush);
        }
        // all unordered pairs of bodies
        for i in 0..bodies.len() {
            for j in i..bodies.len() {
                let (a, b) = (&bodies[i], &bodies[j]);
                if a.len() + b.len() > 3 {
                    continue;
                }
                if !a.iter().chain(b.iter()).all(|o| relevant(iname, o)) {
                    continue;
                }
                // two reads never conflict
                if a.iter().chain(b.iter()).all(|o| matches!(o, Op::Get(_))) {
                    continue;
                }
                if cfg.persistent && !thorough && (i + j) % 3 != 0 {
                    // the persistent quick tier takes every third pair
                    continue;
                }
                v.push(Program {
                    name: format!("pair-{}:{}:{}|{}", if cfg.persistent { "disk" } else { "mem" }, iname, describe(&t, a), describe(&t, b)),
                    cfg,
                    tables: t.clone(),
                    setup: setup.clone(),
                    threads: vec![a.clone(), b.clone()],
                    observe: vec![0],
                });
            }
        }
        // triples of single ops from a reduced set
        let reduced: Vec<Op> = vec![ins(V_X, 0), ins(V_Y, TS_B), Op::Delete { k: 0, ts: 0 }, Op::Incr { k: 0, delta: 1, ts: 0, ttl: 0 }, Op::Ifa { k: 0, v: V_X }, Op::Cas { k: 0, expect: V_X, new: V_Y, ts: 0, ttl: 0 }, Op::Get(0)];
        if !cfg.persistent || thorough {
            for i in 0..reduced.len() {
                for j in i..reduced.len() {
                    for k in j..reduced.len() {
                        let ops = [reduced[i], reduced[j], reduced[k]];
                        if !ops.iter().all(|o| relevant(iname, o)) || ops.iter().filter(|o| matches!(o, Op::Get(_))).count() > 1 {
                            continue;
                        }
                        v.push(Program {
                            name: format!("triple-{}:{}:{}", if cfg.persistent { "disk" } else { "mem" }, iname, ops.iter().map(|o| t.describe(o)).collect::<Vec<_>>().join("|")),
                            cfg,
                            tables: t.clone(),
                            setup: setup.clone(),
                            threads: ops.iter().map(|o| vec![*o]).collect(),
                            observe: vec![0],
                        });
                    }
                }
            }
        }
    }
    if thorough && !cfg.persistent {
        // four threads, one op each, bound limited by the caller
        let quad: Vec<Op> = vec![ins(V_X, 0), Op::Delete { k: 0, ts: 0 }, Op::Incr { k: 0, delta: 1, ts: 0, ttl: 0 }, Op::Ifa { k: 0, v: V_Y }, Op::Cas { k: 0, expect: V_X, new: V_Y, ts: 0, ttl: 0 }, Op::Get(0)];
        for (iname, setup) in initials() {
            for a in 0..quad.len() {
                for b in a..quad.len() {
                    for c in b..quad.len() {
                        for d in c..quad.len() {
                            let ops = [quad[a], quad[b], quad[c], quad[d]];
                            if !ops.iter().all(|o| relevant(iname, o)) || ops.iter().filter(|o| matches!(o, Op::Get(_))).count() > 1 {
                                continue;
                            }
                            v.push(Program {
                                name: format!("quad-mem:{}:{}", iname, ops.iter().map(|o| t.describe(o)).collect::<Vec<_>>().join("|")),
                                cfg,
                                tables: t.clone(),
                                setup: setup.clone(),
                                threads: ops.iter().map(|o| vec![*o]).collect(),
                                observe: vec![0],
                            });
                        }
                    }
                }
            }
        }
    }
    v
}

fn describe(t: &Tables, ops: &[Op]) -> String {
    ops.iter().map(|o| t.describe(o)).collect::<Vec<_>>().join(";")
}
