//! Checks built on the crash engine: C02, C03, C04, C05 (and the flushed-image part of C10).

use crate::crash::{self, CrashOpts, CrashStats, Obligations};
use crate::layoutref;
use crate::model::Gen;
use crate::seq::{self, PathOutcome, Suite};
use crate::session::IoEv;
use crate::sut::{Op, Out};
use crate::util::{hash64, show, worker_threads, Deadline, Report};
use serde_json::json;
use std::collections::{BTreeMap, HashSet};
use std::sync::Mutex;

#[derive(Default)]
struct Agg {
    stats: CrashStats,
    paths: u64,
    findings: Vec<(String, Vec<u16>, String, String)>, // suite, hist, msg, image desc
    flushed_images: u64,
    samples: Vec<serde_json::Value>,
    foreign: u64,
}

/// Image of the device after every logged write up to `pos` reached it.
fn image_at(base: &[u8], log: &[IoEv], pos: usize) -> Vec<u8> {
    let mut img = base.to_vec();
    for ev in &log[..pos.min(log.len())] {
        if let IoEv::W { off, data, .. } = ev {
            let o = *off as usize;
            if o + data.len() <= img.len() {
                img[o..o + data.len()].copy_from_slice(data);
            }
        }
    }
    img
}

/// C10: an independent reader of the documented layout must find exactly the model's
/// live keys in a flushed image.
pub fn layout_check(image: &[u8], format: u32, snapshot: &BTreeMap<Vec<u8>, Gen>) -> Vec<String> {
    let mut v = Vec::new();
    let d = layoutref::decode(image);
    let Some(meta) = d.meta.as_ref() else {
        v.push("C10: no valid metadata copy in a flushed image".into());
        return v;
    };
    if meta.version != format {
        v.push(format!("C10: metadata says format v{} on a v{} device", meta.version, format));
    }
    if d.journal_error {
        v.push("C10: allocation journal unreadable after flush".into());
    }
    if let Some(j) = &d.journal {
        if j.active {
            v.push(format!("C10: allocation journal still active after flush: {:?}", j.extents));
        }
    }
    if format >= 3 && (d.primary.is_none() || d.backup.is_none()) {
        v.push("C10: a metadata copy is invalid after flush".into());
    }
    for (rec, block, _blocks, token_ok) in d.records() {
        if !token_ok {
            v.push(format!(
                "C10: record of key {} at block {block} carries a wrong token for format v{format}",
                show(&rec.key)
            ));
        }
    }
    for item in &d.items {
        match item {
            layoutref::Item::BadHead { block, why } => v.push(format!("C10: block {block} starts like a record but is malformed: {why}")),
            layoutref::Item::Marker { block, token_ok: false, .. } => v.push(format!("C10: retirement marker at block {block} has a wrong token")),
            layoutref::Item::Marker { block, state, .. } if *state != 1 => v.push(format!("C10: retirement marker at block {block} left pending after flush")),
            layoutref::Item::LegacyMarker { block } => v.push(format!("C10: legacy (ambiguous) deletion marker written at block {block}")),
            _ => {}
        }
    }
    let live = d.live();
    let got: Vec<(&Vec<u8>, &Vec<u8>, u64, u64)> = live.iter().map(|(k, r)| (k, &r.rec.value, r.rec.timestamp, r.rec.expiry)).collect();
    let want: Vec<(&Vec<u8>, &Vec<u8>, u64, u64)> =
        snapshot.iter().map(|(k, g)| (k, &g.value, g.ts, if format >= 2 { g.expiry } else { 0 })).collect();
    if got != want {
        let f = |x: &Vec<(&Vec<u8>, &Vec<u8>, u64, u64)>| x.iter().map(|(k, v, t, e)| format!("{}={}@{}/{}", show(k), show(v), t, e)).collect::<Vec<_>>();
        v.push(format!("C10: an independent reader finds {:?} in the file but the live contents are {:?}", f(&got), f(&want)));
    } else {
        // one record per live key: superseded generations must have been retired
        let mut per_key: BTreeMap<&Vec<u8>, usize> = BTreeMap::new();
        for (rec, _, _, _) in d.records() {
            *per_key.entry(&rec.key).or_insert(0) += 1;
        }
        if let Some((k, n)) = per_key.iter().find(|(_, n)| **n > 1) {
            v.push(format!("C10: {n} record generations of key {} remain in the file after flush", show(k)));
        }
    }
    let blocks: u64 = live.values().map(|r| r.blocks).sum();
    if meta.total_records != snapshot.len() as u64 || meta.total_size != blocks * 4096 {
        v.push(format!(
            "C10: metadata counters (records {}, bytes {}) differ from the live totals ({}, {})",
            meta.total_records,
            meta.total_size,
            snapshot.len(),
            blocks * 4096
        ));
    }
    v
}

pub struct CrashPlan {
    /// enumerate crash images (false = only the per-flush checks on each history)
    pub crash: bool,
    /// tag for the independent-reader check of flushed images ("C10" or "C05")
    pub layout_tag: &'static str,
    pub nest: usize,
    pub reopen_cycles: usize,
    pub sector_tear: bool,
    pub layout: bool,
    pub probe_auto_ts: bool,
    /// after the recovery of every image: delete every recovered key, flush, reopen (C02:
    /// an acknowledged delete never comes back)
    pub continue_after: bool,
}

/// Share of the time budget a suite gets. Nested passes (crash inside recovery) spend
/// their time where recovery itself writes: TTL generations to retire, tiny devices.
fn suite_weight(prop: &str, nest: usize, name: &str) -> f64 {
    if prop == "C02" || prop == "C03-deep" {
        // durability of acknowledged writes: the histories that need depth are overwrite /
        // delete chains with extent reuse; value shapes and the legacy formats add little
        return if ["ttl-reuse-v3", "crash-reuse-v3", "full4", "small", "core-v3"].iter().any(|k| name.contains(k)) {
            3.0
        } else if ["evil", "edge", "core-v2", "uring", "end5", "ttl-big", "reuse-v2"].iter().any(|k| name.contains(k)) {
            0.4
        } else {
            1.0
        };
    }
    if nest == 0 {
        return 1.0;
    }
    if ["ttl", "end5", "full4", "small", "edge-v1"].iter().any(|k| name.contains(k)) {
        2.0
    } else if ["uring", "core-v2", "edge-v2", "evil"].iter().any(|k| name.contains(k)) {
        0.5
    } else {
        1.0
    }
}

pub fn crash_check(prop: &str, suites: Vec<Suite>, accept: &[&str], plan: CrashPlan, budget_s: f64, report: &mut Report) {
    let threads = worker_threads();
    let total = Deadline::new(budget_s);
    let seen: Mutex<HashSet<u128>> = Mutex::new(HashSet::new());
    let mut per_suite = serde_json::Map::new();
    let mut foreign = 0u64;
    let mut all_complete = true;
    for (si, s) in suites.iter().enumerate() {
        let remaining = (budget_s - total.elapsed()).max(1.0);
        let ahead: f64 = suites[si..].iter().map(|x| suite_weight(prop, plan.nest, &x.name)).sum();
        let dl = Deadline::new(remaining * suite_weight(prop, plan.nest, &s.name) / ahead);
        let agg: Mutex<Agg> = Mutex::new(Agg::default());
        let keys = crash::tables_keys(&s.tables);
        let on_path = |s: &Suite, hist: &[u16], po: &PathOutcome| {
            if po.violation.is_some() || po.machinery.is_some() || po.snapshots.len() != hist.len() {
                return;
            }
            let Some(base) = po.image.as_ref() else { return };
            let ops: Vec<Op> = hist.iter().map(|&i| s.ops[i as usize]).collect();
            let ob = Obligations::from_path(&keys, &ops, &po.outs, &po.snapshots, &po.log, s.cfg.ttl, s.cfg.data_blocks > 12);
            let from = ob.op_begin.last().copied().unwrap_or(0);
            let now = po.final_model.as_ref().map(|m| m.now).unwrap_or(crate::sut::T0);
            let opts = CrashOpts { sector_tear: plan.sector_tear, reopen_cycles: plan.reopen_cycles, nest: plan.nest, now, probe_auto_ts: plan.probe_auto_ts, continue_after: plan.continue_after };
            let ctx = hash64(&[s.name.as_bytes(), format!("{:?}", ob.hists).as_bytes(), &now.to_le_bytes()]);
            let (mut st, mut findings) = if plan.crash {
                crash::check_history(&s.cfg, base, &po.log, &ob, from, &opts, &seen, ctx)
            } else {
                (CrashStats::default(), Vec::new())
            };
            if plan.crash && s.cfg.ttl {
                // the restart may happen long after the crash: recover every image again
                // at an instant past every expiry
                let later = CrashOpts { now: now + 100_000 * 1_000_000_000, sector_tear: false, reopen_cycles: 0, nest: 0, probe_auto_ts: false, continue_after: false };
                let (st2, f2) = crash::check_history(&s.cfg, base, &po.log, &ob, from, &later, &seen, ctx ^ 0x7711);
                st.images += st2.images;
                st.distinct += st2.distinct;
                st.recoveries += st2.recoveries;
                findings.extend(f2.into_iter().map(|f| crash::Finding { msg: f.msg, desc: format!("{} (recovered 100000 s later)", f.desc) }));
            }
            for m in &po.flush_checks {
                findings.push(crash::Finding { msg: m.clone(), desc: "live store at flush acknowledgement".into() });
            }
            let mut layout_findings = Vec::new();
            let mut flushed = 0;
            if plan.layout {
                if let (Some(&Op::Flush), Some(Out::Unit)) = (ops.last(), po.outs.last()) {
                    let end = po.log.iter().position(|e| matches!(e, IoEv::Mark(2, i) if *i as usize == ops.len() - 1)).unwrap_or(po.log.len());
                    let img = image_at(base, &po.log, end);
                    flushed = 1;
                    layout_findings = layout_check(&img, s.cfg.format, po.snapshots.last().unwrap())
                        .into_iter()
                        .map(|m| m.replacen("C10", plan.layout_tag, 1))
                        .collect();
                }
            }
            let mut a = agg.lock().unwrap();
            a.paths += 1;
            a.flushed_images += flushed;
            a.stats.images += st.images;
            a.stats.distinct += st.distinct;
            a.stats.recoveries += st.recoveries;
            a.stats.nested_images += st.nested_images;
            a.stats.capped_epochs += st.capped_epochs;
            a.stats.open_failures += st.open_failures;
            a.stats.max_inflight = a.stats.max_inflight.max(st.max_inflight);
            if a.samples.len() < 3 && st.distinct > 2 {
                a.samples.push(json!({"suite": s.name, "history": seq::describe_hist(s, hist), "crash_images": st.images, "distinct_new": st.distinct, "max_inflight_blocks": st.max_inflight}));
            }
            // findings of other properties must not use up the cap of this check's own
            for f in findings {
                let mine = super::accepted(accept, &f.msg);
                if !mine {
                    a.foreign += 1;
                } else if a.findings.len() < 64 {
                    a.findings.push((s.name.clone(), hist.to_vec(), f.msg, f.desc));
                }
            }
            for m in layout_findings {
                let mine = super::accepted(accept, &m);
                if !mine {
                    a.foreign += 1;
                } else if a.findings.len() < 64 {
                    a.findings.push((s.name.clone(), hist.to_vec(), m, "image at flush acknowledgement".into()));
                }
            }
        };
        let r = seq::explore(s, &dl, threads, Some(&on_path));
        let a = agg.into_inner().unwrap();
        report.add("states", r.states);
        report.add("transitions", r.transitions);
        report.add("traces_validated_against_impl", r.transitions + a.stats.recoveries);
        report.add("crash_images_enumerated", a.stats.images + a.stats.nested_images);
        report.add("distinct_images_recovered", a.stats.distinct);
        report.add("recoveries_run", a.stats.recoveries);
        report.add("nested_crash_images", a.stats.nested_images);
        report.add("flushed_images_decoded", a.flushed_images);
        report.add("capped_epochs", a.stats.capped_epochs);
        per_suite.insert(
            format!("{}{}{}", s.name, if plan.sector_tear { "+tear" } else { "" }, if plan.nest > 0 { format!("+nest{}", plan.nest) } else { String::new() }),
            json!({
                "config": s.cfg.name(), "alphabet": s.ops.len(), "depth_bound": s.depth, "depth_completed": r.max_depth_completed,
                "complete": r.complete, "histories": a.paths, "crash_images": a.stats.images, "nested": a.stats.nested_images,
                "distinct_recovered": a.stats.distinct, "recoveries": a.stats.recoveries, "max_inflight_blocks": a.stats.max_inflight,
                "capped_epochs": a.stats.capped_epochs, "flushed_images_decoded": a.flushed_images, "wall_s": dl.elapsed(),
            }),
        );
        if !r.complete {
            all_complete = false;
            if r.max_depth_completed < s.uncapped_levels {
                report.machinery(format!("suite {} stopped before depth {} completed", s.name, s.uncapped_levels));
            }
        }
        for m in r.machinery {
            report.machinery(format!("[{}] {m}", s.name));
        }
        for sm in a.samples {
            report.sample(sm);
        }
        // sequential-oracle violations seen while producing histories
        for (hist, msg) in r.violations {
            if super::accepted(accept, &msg) {
                report.violation(
                    format!("{}|{}|{}", s.name, seq::describe_hist(s, &hist).join(";"), msg.lines().next().unwrap_or("")),
                    format!("suite {} history {:?}\n{msg}", s.name, seq::describe_hist(s, &hist)),
                    seq::replay_value(s, &hist),
                );
            } else {
                foreign += 1;
            }
        }
        foreign += a.foreign;
        let mut fs = a.findings;
        fs.sort_by_key(|(_, h, _, _)| h.len());
        for (suite, hist, msg, desc) in fs {
            if !super::accepted(accept, &msg) {
                foreign += 1;
                continue;
            }
            let head: String = msg.chars().take(110).collect();
            let mut rv = seq::replay_value(s, &hist);
            rv["engine"] = json!("crash");
            rv["image"] = json!(desc);
            report.violation(
                format!("{suite}|{}|{head}", seq::describe_hist(s, &hist).join(";")),
                format!("suite {suite} history {:?}\ncrash image {desc}\n{msg}", seq::describe_hist(s, &hist)),
                rv,
            );
        }
    }
    report.merge_map("suites", per_suite);
    report.set("exhaustive", all_complete);
    report.set("foreign_violations_seen", foreign);
    report.set(
        "explanation",
        "every history of the BFS is executed on the real store over a logged device; for every epoch of the log every subset of \
         in-flight 4 KiB blocks (plus 512-byte tearing of single blocks) is applied to the durable image; every distinct image is \
         reopened with the real recovery and judged against the per-key history window; recovery's own writes are enumerated again (nested)",
    );
    let _ = prop;
}

// ------------------------------------------------------------------ replay of one crash image

fn parse_descs(text: &str) -> Vec<crash::ImageDesc> {
    let num_after = |s: &str, key: &str| -> Option<usize> {
        let i = s.find(key)? + key.len();
        let digits: String = s[i..].chars().take_while(|c| c.is_ascii_digit()).collect();
        digits.parse().ok()
    };
    text.split(" -> crash during recovery ")
        .filter_map(|part| {
            let epoch = num_after(part, "epoch: ")?;
            let cut = num_after(part, "cut: ")?;
            let inflight = num_after(part, "inflight: ").unwrap_or(0);
            let l0 = part.find("landed: [")? + "landed: [".len();
            let l1 = l0 + part[l0..].find(']')?;
            let landed: Vec<usize> = part[l0..l1].split(',').filter_map(|x| x.trim().parse().ok()).collect();
            let torn = part.find("torn: Some((").map(|i| {
                let j = i + "torn: Some((".len();
                let k = j + part[j..].find(')').unwrap_or(0);
                let v: Vec<usize> = part[j..k].split(',').filter_map(|x| x.trim().parse().ok()).collect();
                (v.first().copied().unwrap_or(0), v.get(1).copied().unwrap_or(0), v.get(2).copied().unwrap_or(0))
            });
            Some(crash::ImageDesc { epoch, cut, landed, torn, inflight })
        })
        .collect()
}

fn pick_image(base: &[u8], log: &[IoEv], want: &crash::ImageDesc, sector_tear: bool) -> Option<Vec<u8>> {
    let mut found = None;
    crash::enumerate(base, log, 0, sector_tear, |img, d| {
        if d.epoch == want.epoch && d.landed == want.landed && d.torn == want.torn {
            found = Some(img.to_vec());
            return false;
        }
        true
    });
    found
}

pub fn all_crash_suites() -> Vec<Suite> {
    let mut v = Vec::new();
    for thorough in [false, true] {
        v.extend(crate::suites::crash_suites(thorough));
        v.extend(crate::suites::partition_suites(thorough));
        v.extend(crate::suites::layout_suites(thorough));
    }
    v
}

/// Re-execute the history, rebuild exactly the recorded crash image (and nested
/// crash-during-recovery images), recover it and print what every oracle says.
pub fn replay(suite: &str, hist: &[u16], image: &str) -> i32 {
    let Some(s) = all_crash_suites().into_iter().find(|s| s.name == suite) else {
        println!("no crash suite {suite}");
        return 2;
    };
    println!("suite {} config {} history {:?}", s.name, s.cfg.name(), seq::describe_hist(&s, hist));
    let po = seq::run_path(&s, hist, None, true);
    if let Some(m) = po.machinery {
        println!("MACHINERY {m}");
        return 2;
    }
    if let Some(v) = &po.violation {
        println!("violation while producing the history: {v}");
        return 1;
    }
    let Some(base) = po.image.as_ref() else { return 2 };
    let keys = crash::tables_keys(&s.tables);
    let ops: Vec<Op> = hist.iter().map(|&i| s.ops[i as usize]).collect();
    let ob = Obligations::from_path(&keys, &ops, &po.outs, &po.snapshots, &po.log, s.cfg.ttl, s.cfg.data_blocks > 12);
    let now = po.final_model.as_ref().map(|m| m.now).unwrap_or(crate::sut::T0);
    let descs = parse_descs(image);
    if descs.is_empty() {
        // e.g. "live store at flush acknowledgement": the sequential path above already re-checked it
        for m in &po.flush_checks {
            println!("violation: {m}");
        }
        return if po.flush_checks.is_empty() { 0 } else { 1 };
    }
    let mut img = match pick_image(base, &po.log, &descs[0], true) {
        Some(i) => i,
        None => {
            println!("MACHINERY the recorded image {:?} does not occur in this execution's log", descs[0]);
            return 2;
        }
    };
    println!("level 0 image: {:?} ({} device writes in the log)", descs[0], po.log.iter().filter(|e| matches!(e, IoEv::W { .. })).count());
    let mut reference: Option<crash::Recovered> = None;
    for (level, d) in descs.iter().enumerate().skip(1) {
        // recover the current image with logging, then cut the recovery's own writes
        let f = crate::util::TempFile::new("replay");
        std::fs::write(&f.0, &img).unwrap();
        let sess = crate::session::Session::new();
        sess.clock.store(now, std::sync::atomic::Ordering::SeqCst);
        sess.set_flag(crate::session::F_NO_URING, !s.cfg.uring);
        sess.set_flag(crate::session::F_FORCE_SYNC, !s.cfg.uring);
        sess.log_enabled.store(true, std::sync::atomic::Ordering::SeqCst);
        match crash::recover(s.cfg, f.path(), sess.clone()) {
            Ok((mut sut, rec)) => {
                if reference.is_none() {
                    reference = Some(rec);
                }
                sut.close();
            }
            Err(e) => {
                println!("violation: C03: {e} (level {})", level - 1);
                return 1;
            }
        }
        let rlog = sess.take_log();
        match pick_image(&img, &rlog, d, false) {
            Some(i) => img = i,
            None => {
                println!("MACHINERY nested image {d:?} does not occur in the recovery log");
                return 2;
            }
        }
        println!("level {level} image (crash during recovery): {d:?}");
    }
    let f = crate::util::TempFile::new("replay");
    std::fs::write(&f.0, &img).unwrap();
    let sess = crate::session::Session::new();
    sess.clock.store(now, std::sync::atomic::Ordering::SeqCst);
    sess.set_flag(crate::session::F_NO_URING, true);
    let cut = descs[0].cut;
    match crash::recover(s.cfg, f.path(), sess) {
        Err(e) => {
            println!("violation: C03: {e} on the crash image");
            1
        }
        Ok((mut sut, rec)) => {
            println!("recovered contents: {:?}", rec.keys.iter().map(|(k, r)| format!("{}={}@{} [{}+{}]", show(k), r.value.as_ref().map(|v| show(v)).unwrap_or_else(|e| format!("<{e}>")), r.ts, r.sector, r.blocks)).collect::<Vec<_>>());
            println!("admissible windows: {:?}", ob.window(cut));
            let mut msgs = crash::judge(&ob, cut, &rec, now);
            msgs.extend(crash::structural(&s.cfg, &rec, now));
            if let Some(r0) = &reference {
                if r0.contents() != rec.contents() {
                    msgs.push("C04: contents differ from the first successful recovery".into());
                }
            }
            sut.close();
            for m in &msgs {
                println!("violation: {m}");
            }
            if msgs.is_empty() {
                println!("no violation on this image");
                0
            } else {
                1
            }
        }
    }
}
