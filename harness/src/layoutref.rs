//! Independent reader / writer of the documented FeOx device layout.
//!
//! Written from the README ("Storage Format and Recovery"), the doc comments and the
//! constants of the storage modules. It shares **no code** with the crate: own
//! CRC32C, own field offsets, own token fold, own marker and journal layout.
//!
//! Layout (block = 4096 bytes, all integers little endian):
//!   block 0        primary metadata      block 7  backup metadata
//!   blocks 1..=6   allocation journal, two slots of three blocks
//!   blocks 16..    data area: records, retirement markers, free (zero / stale) blocks
//!
//! record head : CD AB | token u16 | key_len u16 | key | value_len u64 | timestamp u64
//!               | (v2, v3) ttl_expiry u64 | value ... zero padded to a block multiple
//! token (v3)  : fold(crc32c(first_block_index u64 ‖ extent with the token bytes zeroed)),
//!               fold(c) = (c >> 16) ^ (c & 0xffff), 0 mapped to 1; v1/v2 store 0
//! marker      : "\0DELETED" | remaining_blocks u64 | token u16 | state u8 (1 complete, 0 pending)
//!               token = fold(crc32c(block_index u64 ‖ bytes 0..16 ‖ state))
//! legacy mark : "\0DELETED" followed by zeros (no length: ambiguous)

use std::collections::BTreeMap;

pub const BLOCK: usize = 4096;
pub const DATA_START: u64 = 16;
pub const META_PRIMARY: u64 = 0;
pub const META_BACKUP: u64 = 7;
pub const JOURNAL_START: u64 = 1;
pub const JOURNAL_SLOT_BLOCKS: u64 = 3;
pub const JOURNAL_SLOTS: usize = 2;
pub const MAX_VALUE: usize = 4 * 1024 * 1024;

// ------------------------------------------------------------------ crc32c (Castagnoli), bitwise-table

fn crc_table() -> &'static [u32; 256] {
    static TABLE: std::sync::OnceLock<[u32; 256]> = std::sync::OnceLock::new();
    TABLE.get_or_init(|| {
        let mut t = [0u32; 256];
        for (i, slot) in t.iter_mut().enumerate() {
            let mut c = i as u32;
            for _ in 0..8 {
                c = if c & 1 == 1 { (c >> 1) ^ 0x82F6_3B78 } else { c >> 1 };
            }
            *slot = c;
        }
        t
    })
}

/// CRC32C of the concatenation of `parts`.
pub fn crc32c(parts: &[&[u8]]) -> u32 {
    let t = crc_table();
    let mut c = 0xFFFF_FFFFu32;
    for p in parts {
        for &b in *p {
            c = t[((c ^ b as u32) & 0xff) as usize] ^ (c >> 8);
        }
    }
    !c
}

/// The fold before the "never 0" rule is applied.
pub fn raw_fold(c: u32) -> u16 {
    ((c >> 16) ^ (c & 0xffff)) as u16
}

/// A value (ASCII, `len` bytes) for which the v3 record (key, value, ts, expiry) placed
/// at `first_block` has the given raw token fold — the boundary cases of the token rule
/// (raw fold 0 is stored as 1; 1 and 0xffff are stored as they are).
pub fn value_with_raw_fold(key: &[u8], ts: u64, expiry: u64, first_block: u64, len: usize, target: u16) -> Vec<u8> {
    for nonce in 0u64.. {
        let mut value = format!("fold{target:04x}-{nonce:012}-").into_bytes();
        while value.len() < len {
            value.push(b'.');
        }
        value.truncate(len.max(24));
        let r = Rec { key: key.to_vec(), value: value.clone(), timestamp: ts, expiry };
        let bytes = encode_record(3, first_block, &r);
        let c = crc32c(&[&first_block.to_le_bytes(), &bytes[0..2], &[0, 0], &bytes[4..]]);
        if raw_fold(c) == target {
            return value;
        }
    }
    unreachable!()
}

pub fn fold(c: u32) -> u16 {
    let t = ((c >> 16) ^ (c & 0xffff)) as u16;
    if t == 0 {
        1
    } else {
        t
    }
}

// ------------------------------------------------------------------ metadata

#[derive(Clone, Debug, PartialEq, Eq)]
pub struct Meta {
    pub version: u32,
    pub total_records: u64,
    pub total_size: u64,
    pub device_size: u64,
    pub block_size: u32,
    pub fragmentation: u32,
    pub creation_time: u64,
    pub last_update_time: u64,
    pub generation: u64,
    pub has_checksum: bool,
}

fn meta_checksum(b: &[u8]) -> u32 {
    // signature, version, counters, sizes, times, then the reserved area after the
    // checksum words (generation onwards). Bytes 12..16 are padding and not covered.
    crc32c(&[&b[0..8], &b[8..12], &b[16..64], &b[76..132]])
}

pub fn encode_meta(m: &Meta) -> Vec<u8> {
    let mut b = vec![0u8; BLOCK];
    b[0..8].copy_from_slice(b"FEOX_SIG");
    b[8..12].copy_from_slice(&m.version.to_le_bytes());
    b[16..24].copy_from_slice(&m.total_records.to_le_bytes());
    b[24..32].copy_from_slice(&m.total_size.to_le_bytes());
    b[32..40].copy_from_slice(&m.device_size.to_le_bytes());
    b[40..44].copy_from_slice(&m.block_size.to_le_bytes());
    b[44..48].copy_from_slice(&m.fragmentation.to_le_bytes());
    b[48..56].copy_from_slice(&m.creation_time.to_le_bytes());
    b[56..64].copy_from_slice(&m.last_update_time.to_le_bytes());
    if m.has_checksum {
        b[64..68].copy_from_slice(b"FM3C");
        b[76..84].copy_from_slice(&m.generation.to_le_bytes());
        let c = meta_checksum(&b);
        b[68..72].copy_from_slice(&c.to_le_bytes());
        b[72..76].copy_from_slice(&(!c).to_le_bytes());
    }
    b
}

pub fn decode_meta(b: &[u8]) -> Option<Meta> {
    if b.len() < 136 || &b[0..8] != b"FEOX_SIG" {
        return None;
    }
    let u32at = |o: usize| u32::from_le_bytes(b[o..o + 4].try_into().unwrap());
    let u64at = |o: usize| u64::from_le_bytes(b[o..o + 8].try_into().unwrap());
    let m = Meta {
        version: u32at(8),
        total_records: u64at(16),
        total_size: u64at(24),
        device_size: u64at(32),
        block_size: u32at(40),
        fragmentation: u32at(44),
        creation_time: u64at(48),
        last_update_time: u64at(56),
        generation: u64at(76),
        has_checksum: &b[64..68] == b"FM3C",
    };
    if m.block_size != BLOCK as u32 || m.version == 0 || m.version > 3 {
        return None;
    }
    if m.device_size == 0 || m.device_size > (1u64 << 40) {
        return None;
    }
    if m.version >= 3 && !m.has_checksum {
        return None;
    }
    if m.has_checksum {
        let c = u32at(68);
        if u32at(72) != !c || meta_checksum(b) != c {
            return None;
        }
    }
    Some(m)
}

/// The metadata copy a reader must trust: the valid copy with the higher generation,
/// primary on ties.
pub fn current_meta(image: &[u8]) -> Option<(Meta, u64)> {
    let p = decode_meta(block(image, META_PRIMARY)?);
    let k = decode_meta(block(image, META_BACKUP)?);
    match (p, k) {
        (Some(p), Some(k)) if k.generation > p.generation => Some((k, META_BACKUP)),
        (Some(p), _) => Some((p, META_PRIMARY)),
        (None, Some(k)) => Some((k, META_BACKUP)),
        (None, None) => None,
    }
}

pub fn block(image: &[u8], index: u64) -> Option<&[u8]> {
    let start = (index as usize).checked_mul(BLOCK)?;
    image.get(start..start + BLOCK)
}

// ------------------------------------------------------------------ journal

#[derive(Clone, Debug, PartialEq, Eq)]
pub struct JournalSlot {
    pub slot: usize,
    pub generation: u64,
    pub active: bool,
    pub extents: Vec<(u64, u64)>,
}

fn journal_image_len(count: usize) -> usize {
    (40 + count * 8).div_ceil(BLOCK) * BLOCK
}

fn journal_checksum(d: &[u8]) -> u32 {
    crc32c(&[&d[..12], &[0; 4], &d[16..32], &[0; 4], &d[36..]])
}

pub fn encode_journal(generation: u64, extents: &[(u64, u64)]) -> Vec<u8> {
    let mut d = vec![0u8; journal_image_len(extents.len())];
    d[0..8].copy_from_slice(b"\0FEOXAJ1");
    d[8..12].copy_from_slice(&2u32.to_le_bytes());
    d[16..24].copy_from_slice(&generation.to_le_bytes());
    d[24..28].copy_from_slice(&(if extents.is_empty() { 0u32 } else { 1u32 }).to_le_bytes());
    d[28..32].copy_from_slice(&(extents.len() as u32).to_le_bytes());
    for (i, (s, n)) in extents.iter().enumerate() {
        let o = 40 + i * 8;
        d[o..o + 4].copy_from_slice(&(*s as u32).to_le_bytes());
        d[o + 4..o + 8].copy_from_slice(&(*n as u32).to_le_bytes());
    }
    let c = journal_checksum(&d);
    d[12..16].copy_from_slice(&c.to_le_bytes());
    d[32..36].copy_from_slice(&(!c).to_le_bytes());
    d
}

pub fn decode_journal_slot(d: &[u8], slot: usize, total_blocks: u64) -> Option<JournalSlot> {
    if d.len() != JOURNAL_SLOT_BLOCKS as usize * BLOCK || &d[0..8] != b"\0FEOXAJ1" {
        return None;
    }
    let u32at = |o: usize| u32::from_le_bytes(d[o..o + 4].try_into().unwrap());
    let version = u32at(8);
    if version != 1 && version != 2 {
        return None;
    }
    let generation = u64::from_le_bytes(d[16..24].try_into().unwrap());
    let state = u32at(24);
    let count = u32at(28) as usize;
    if generation == 0 || count > 1024 || state > 1 || (state == 0) != (count == 0) {
        return None;
    }
    let len = if version == 1 { d.len() } else { journal_image_len(count) };
    let c = u32at(12);
    if u32at(32) != !c || journal_checksum(&d[..len]) != c {
        return None;
    }
    let mut extents = Vec::new();
    for i in 0..count {
        let o = 40 + i * 8;
        let s = u32at(o) as u64;
        let n = u32at(o + 4) as u64;
        if s < DATA_START || n == 0 || s + n > total_blocks {
            return None;
        }
        extents.push((s, n));
    }
    let mut sorted = extents.clone();
    sorted.sort();
    if sorted.windows(2).any(|w| w[0].0 + w[0].1 > w[1].0) {
        return None;
    }
    Some(JournalSlot { slot, generation, active: state == 1, extents })
}

/// Newest valid slot, or None if both slots are empty (never written).
/// `Err(())` = content present but no slot is valid and none is empty.
pub fn current_journal(image: &[u8]) -> Result<Option<JournalSlot>, ()> {
    let total = (image.len() / BLOCK) as u64;
    let mut best: Option<JournalSlot> = None;
    let mut empty = 0;
    for slot in 0..JOURNAL_SLOTS {
        let start = (JOURNAL_START as usize + slot * JOURNAL_SLOT_BLOCKS as usize) * BLOCK;
        let Some(d) = image.get(start..start + JOURNAL_SLOT_BLOCKS as usize * BLOCK) else { return Err(()) };
        if d.iter().all(|b| *b == 0) {
            empty += 1;
            continue;
        }
        if let Some(s) = decode_journal_slot(d, slot, total) {
            if best.as_ref().is_none_or(|b| s.generation > b.generation) {
                best = Some(s);
            }
        }
    }
    if best.is_none() && empty == 0 {
        return Err(());
    }
    Ok(best)
}

// ------------------------------------------------------------------ records and markers

#[derive(Clone, Debug, PartialEq, Eq)]
pub struct Rec {
    pub key: Vec<u8>,
    pub value: Vec<u8>,
    pub timestamp: u64,
    pub expiry: u64,
}

pub fn header_len(version: u32, key_len: usize) -> usize {
    4 + 2 + key_len + 8 + 8 + if version >= 2 { 8 } else { 0 }
}

pub fn extent_blocks(version: u32, key_len: usize, value_len: usize) -> u64 {
    (header_len(version, key_len) + value_len).div_ceil(BLOCK) as u64
}

pub fn record_token(first_block: u64, extent: &[u8]) -> u16 {
    fold(crc32c(&[&first_block.to_le_bytes(), &extent[0..2], &[0, 0], &extent[4..]]))
}

/// Encode a record as it must appear on a device of the given format version,
/// placed at `first_block`.
pub fn encode_record(version: u32, first_block: u64, r: &Rec) -> Vec<u8> {
    let mut d = Vec::new();
    d.extend_from_slice(&[0xCD, 0xAB, 0, 0]);
    d.extend_from_slice(&(r.key.len() as u16).to_le_bytes());
    d.extend_from_slice(&r.key);
    d.extend_from_slice(&(r.value.len() as u64).to_le_bytes());
    d.extend_from_slice(&r.timestamp.to_le_bytes());
    if version >= 2 {
        d.extend_from_slice(&r.expiry.to_le_bytes());
    }
    d.extend_from_slice(&r.value);
    let padded = d.len().div_ceil(BLOCK) * BLOCK;
    d.resize(padded, 0);
    if version >= 3 {
        let t = record_token(first_block, &d);
        d[2..4].copy_from_slice(&t.to_le_bytes());
    }
    d
}

pub fn marker_token(block_index: u64, m: &[u8]) -> u16 {
    fold(crc32c(&[&block_index.to_le_bytes(), &m[0..16], &m[18..19]]))
}

pub fn encode_marker(block_index: u64, remaining: u64, state: u8) -> Vec<u8> {
    let mut b = vec![0u8; BLOCK];
    b[0..8].copy_from_slice(b"\0DELETED");
    b[8..16].copy_from_slice(&remaining.to_le_bytes());
    b[18] = state;
    let t = marker_token(block_index, &b);
    b[16..18].copy_from_slice(&t.to_le_bytes());
    b
}

pub fn encode_legacy_marker() -> Vec<u8> {
    let mut b = vec![0u8; BLOCK];
    b[0..8].copy_from_slice(b"\0DELETED");
    b
}

#[derive(Clone, Debug, PartialEq, Eq)]
pub enum Item {
    Record { block: u64, blocks: u64, rec: Rec, token: u16, token_ok: bool },
    Marker { block: u64, remaining: u64, state: u8, token_ok: bool },
    LegacyMarker { block: u64 },
    /// A block starting with the record magic that does not parse as a record.
    BadHead { block: u64, why: &'static str },
}

#[derive(Clone, Debug, Default)]
pub struct Decoded {
    pub meta: Option<Meta>,
    pub meta_block: u64,
    pub primary: Option<Meta>,
    pub backup: Option<Meta>,
    pub journal: Option<JournalSlot>,
    pub journal_error: bool,
    pub items: Vec<Item>,
    /// Blocks of the data area not covered by any item.
    pub other_blocks: Vec<u64>,
}

/// Parse the record whose head block is `first`; `None` if the head is not a
/// well-formed record of this version.
fn parse_record(image: &[u8], version: u32, first: u64, total: u64) -> Result<(Rec, u64, u16, bool), &'static str> {
    let head = block(image, first).ok_or("out of range")?;
    let key_len = u16::from_le_bytes([head[4], head[5]]) as usize;
    if key_len == 0 {
        return Err("zero key length");
    }
    let hl = header_len(version, key_len);
    if hl > BLOCK {
        return Err("header exceeds block");
    }
    let mut o = 6;
    let key = head[o..o + key_len].to_vec();
    o += key_len;
    let value_len = u64::from_le_bytes(head[o..o + 8].try_into().unwrap());
    o += 8;
    let timestamp = u64::from_le_bytes(head[o..o + 8].try_into().unwrap());
    o += 8;
    let expiry = if version >= 2 {
        let e = u64::from_le_bytes(head[o..o + 8].try_into().unwrap());
        o += 8;
        e
    } else {
        0
    };
    if value_len == 0 || value_len > MAX_VALUE as u64 {
        return Err("value length out of range");
    }
    let blocks = extent_blocks(version, key_len, value_len as usize);
    if first + blocks > total {
        return Err("extent leaves the device");
    }
    let extent = &image[first as usize * BLOCK..(first + blocks) as usize * BLOCK];
    let token = u16::from_le_bytes([head[2], head[3]]);
    let token_ok = if version >= 3 { token != 0 && token == record_token(first, extent) } else { token == 0 };
    let value = extent[o..o + value_len as usize].to_vec();
    Ok((Rec { key, value, timestamp, expiry }, blocks, token, token_ok))
}

pub fn decode(image: &[u8]) -> Decoded {
    let mut out = Decoded::default();
    out.primary = block(image, META_PRIMARY).and_then(decode_meta);
    out.backup = block(image, META_BACKUP).and_then(decode_meta);
    if let Some((m, b)) = current_meta(image) {
        out.meta = Some(m);
        out.meta_block = b;
    }
    match current_journal(image) {
        Ok(j) => out.journal = j,
        Err(()) => out.journal_error = true,
    }
    let version = out.meta.as_ref().map_or(3, |m| m.version);
    let total = (image.len() / BLOCK) as u64;
    let mut b = DATA_START;
    while b < total {
        let blk = block(image, b).unwrap();
        if &blk[0..8] == b"\0DELETED" {
            if blk[8..].iter().all(|x| *x == 0) {
                out.items.push(Item::LegacyMarker { block: b });
                b += 1;
                continue;
            }
            let remaining = u64::from_le_bytes(blk[8..16].try_into().unwrap());
            let token = u16::from_le_bytes([blk[16], blk[17]]);
            let ok = token == marker_token(b, blk) && remaining >= 1 && b + remaining <= total;
            out.items.push(Item::Marker { block: b, remaining, state: blk[18], token_ok: ok });
            b += if ok { remaining } else { 1 };
            continue;
        }
        if blk[0] == 0xCD && blk[1] == 0xAB {
            match parse_record(image, version, b, total) {
                Ok((rec, blocks, token, token_ok)) => {
                    out.items.push(Item::Record { block: b, blocks, rec, token, token_ok });
                    b += blocks;
                }
                Err(why) => {
                    out.items.push(Item::BadHead { block: b, why });
                    b += 1;
                }
            }
            continue;
        }
        out.other_blocks.push(b);
        b += 1;
    }
    out
}

#[derive(Clone, Debug, PartialEq, Eq)]
pub struct LiveRec {
    pub rec: Rec,
    pub block: u64,
    pub blocks: u64,
}

impl Decoded {
    /// What a reader of the documented format finds: per key the record with the
    /// newest timestamp (a later block wins a tie), ignoring extents listed in an
    /// active journal entry (they were never committed) and, in v3, records whose
    /// token does not verify.
    pub fn live(&self) -> BTreeMap<Vec<u8>, LiveRec> {
        let version = self.meta.as_ref().map_or(3, |m| m.version);
        let pending: Vec<(u64, u64)> =
            self.journal.as_ref().filter(|j| j.active).map(|j| j.extents.clone()).unwrap_or_default();
        let mut live: BTreeMap<Vec<u8>, LiveRec> = BTreeMap::new();
        for item in &self.items {
            if let Item::Record { block, blocks, rec, token_ok, .. } = item {
                if version >= 3 && !token_ok {
                    continue;
                }
                if pending.iter().any(|(s, n)| *block < s + n && *s < block + blocks) {
                    continue;
                }
                let newer = live.get(&rec.key).is_none_or(|cur| rec.timestamp >= cur.rec.timestamp);
                if newer {
                    live.insert(rec.key.clone(), LiveRec { rec: rec.clone(), block: *block, blocks: *blocks });
                }
            }
        }
        live
    }

    pub fn records(&self) -> impl Iterator<Item = (&Rec, u64, u64, bool)> {
        self.items.iter().filter_map(|i| match i {
            Item::Record { block, blocks, rec, token_ok, .. } => Some((rec, *block, *blocks, *token_ok)),
            _ => None,
        })
    }
}

/// A fresh, empty device image of the given format version (as a legacy release
/// would have left it: valid metadata, nothing else). v1/v2 metadata carries no
/// checksum, which is how those releases wrote it.
pub fn empty_device(version: u32, total_blocks: u64, now_secs: u64) -> Vec<u8> {
    let mut image = vec![0u8; total_blocks as usize * BLOCK];
    let m = Meta {
        version,
        total_records: 0,
        total_size: 0,
        device_size: total_blocks * BLOCK as u64,
        block_size: BLOCK as u32,
        fragmentation: 0,
        creation_time: now_secs,
        last_update_time: now_secs,
        generation: if version >= 3 { 2 } else { 0 },
        has_checksum: version >= 3,
    };
    let b = encode_meta(&m);
    image[0..BLOCK].copy_from_slice(&b);
    if version >= 3 {
        let o = META_BACKUP as usize * BLOCK;
        let mut older = m.clone();
        older.generation = 1;
        image[o..o + BLOCK].copy_from_slice(&encode_meta(&older));
    }
    image
}

pub fn put(image: &mut [u8], block_index: u64, bytes: &[u8]) {
    let o = block_index as usize * BLOCK;
    image[o..o + bytes.len()].copy_from_slice(bytes);
}
