//! fv — bounded exhaustive exploration of the real feoxdb code.
//!
//!   fv check <property> <quick|thorough>     run the check of one property
//!   fv replay <file>                         re-execute a recorded counterexample
//!   fv path <suite> <i,j,k>                  run one SEQ history verbosely
//!   fv smoke                                 timing / sanity

mod crash;
mod kledger;
mod layoutref;
mod model;
mod props;
mod sched;
mod seq;
mod session;
mod suites;
mod sut;
mod util;

use std::process::exit;

#[global_allocator]
static ALLOCATOR: kledger::Tracking = kledger::Tracking;

fn main() {
    let args: Vec<String> = std::env::args().collect();
    // The store prints diagnostics on stderr for injected faults; keep panics quiet
    // but recorded (they are turned into outcomes by catch_unwind).
    std::panic::set_hook(Box::new(|info| {
        if std::env::var("VERIF_SHOW_PANICS").is_ok() {
            eprintln!("panic: {info}");
        }
    }));
    let code = match args.get(1).map(|s| s.as_str()) {
        Some("check") => {
            let prop = args.get(2).cloned().unwrap_or_default();
            let tier = args.get(3).cloned().unwrap_or_else(|| "quick".into());
            // an engine panic is a machinery failure, never a verdict
            match std::panic::catch_unwind(|| props::run_check(&prop, &tier)) {
                Ok(code) => code,
                Err(p) => {
                    let msg = p.downcast_ref::<String>().cloned().or_else(|| p.downcast_ref::<&str>().map(|s| s.to_string())).unwrap_or_default();
                    println!("MACHINERY property={prop} the checker itself panicked: {msg}");
                    2
                }
            }
        }
        Some("replay") => {
            util::start_watchdog("replay", "", 30);
            props::replay(args.get(2).map(|s| s.as_str()).unwrap_or(""))
        }
        Some("path") => {
            let suite = args.get(2).cloned().unwrap_or_default();
            let hist: Vec<u16> = args
                .get(3)
                .map(|s| s.split(',').filter(|x| !x.is_empty()).map(|x| x.parse().unwrap()).collect())
                .unwrap_or_default();
            props::run_one_path(&suite, &hist, args.get(4).map(|s| s == "thorough").unwrap_or(false))
        }
        Some("smoke") => props::smoke(),
        Some("golden-gen") => props::c10::generate(),
        Some("crash-suite") => props::crash_suite_cmd(&args[2], args[3].parse().unwrap_or(3), args.get(4).and_then(|s| s.parse().ok()).unwrap_or(60.0)),
        Some("c09-worker") => props::c09::worker(&args[2..]),
        Some("sched-prog") => props::sched_prog(&args[2], args[3].parse().unwrap_or(1), args.get(4).and_then(|s| s.parse().ok()).unwrap_or(120.0)),
        Some("uring") => {
            let mut report = util::Report::new("debug", "quick", "fault_enumeration");
            props::c09::check_uring(args.get(2).and_then(|s| s.parse().ok()).unwrap_or(30.0), args.get(3).is_some_and(|x| x == "c20"), &mut report);
            println!("{}", serde_json::to_string_pretty(&report.coverage).unwrap_or_default());
            for v in report.violations.iter().take(6) {
                println!("VIOLATION {}", v.detail.chars().take(900).collect::<String>());
            }
            for m in &report.machinery {
                println!("MACHINERY {m}");
            }
            i32::from(!report.violations.is_empty())
        }
        Some("c20-inner") => props::c20::inner(&args[2..]),
        Some("batchfail") => {
            let mut report = util::Report::new("debug", "quick", "model_checking");
            props::batchfail::run(&["C05", "C08", "C09", "C02", "C03"], args.get(2).is_some_and(|x| x == "thorough"), &mut report);
            props::batchfail::run_large_family(&["C05", "C08", "C02", "C03"], args.get(2).is_some_and(|x| x == "thorough"), &mut report);
            props::batchfail::run_close_on_failing_device(&mut report);
            println!("{}", serde_json::to_string(&report.coverage["large_extent_retirement_family"]).unwrap_or_default());
            println!("{}", serde_json::to_string(&report.coverage["failed_batch_family"]).unwrap_or_default());
            for v in report.violations.iter().take(6) {
                println!("VIOLATION {}", v.detail.chars().take(400).collect::<String>());
            }
            for m in &report.machinery {
                println!("MACHINERY {m}");
            }
            if report.violations.is_empty() { 0 } else { 1 }
        }
        Some("c19-case") => props::c19::debug_case(args[2].parse().unwrap(), args[3].parse().unwrap(), &args[4]),
        Some("c17-worker") => props::c17::worker(&args[2..]),
        Some("c15-one") => props::c15::debug_one(args[2].parse().unwrap_or(2), args.get(3).is_some_and(|x| x == "grown")),
        Some("bigrecovery") => {
            let mut report = util::Report::new("debug", "quick", "model_checking");
            props::bigrecovery::run(&["C04", "C11"], &mut report);
            println!("{}", serde_json::to_string(&report.coverage["big_recovery"]).unwrap_or_default());
            println!("{}", serde_json::to_string(&report.coverage.get("big_recovery_torn_journal_slot")).unwrap_or_default());
            for v in report.violations.iter().take(6) {
                println!("VIOLATION {}", v.detail.chars().take(700).collect::<String>());
            }
            for m in &report.machinery {
                println!("MACHINERY {m}");
            }
            i32::from(!report.violations.is_empty())
        }
        Some("suite") => {
            util::start_watchdog("debug", "", 30);
            props::run_suite(
            args.get(2).map(|s| s.as_str()).unwrap_or(""),
            args.get(3).and_then(|s| s.parse().ok()).unwrap_or(3),
            args.get(4).and_then(|s| s.parse().ok()).unwrap_or(60.0),
        )}
        _ => {
            eprintln!("usage: fv check <Cxx> <quick|thorough> | replay <file> | path <suite> <hist> | smoke");
            2
        }
    };
    util::scratch_cleanup();
    exit(code);
}
