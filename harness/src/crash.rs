//! CRASH — exhaustive crash images of a recorded device history.
//!
//! For every epoch of the device log (the writes issued since the last completed
//! fsync) every subset of the in-flight 4 KiB blocks is applied on top of the
//! durable image (blocks of one multi-block write are independent: lost, reordered
//! or torn at block granularity), plus 512-byte tearing of single blocks. Every
//! distinct image is reopened with the real read-write recovery and compared with
//! the per-key history window.

use crate::model::Gen;
use crate::session::{IoEv, Session};
use crate::sut::{Cfg, Op, Out, Sut, Tables};
use crate::util::{hash128, show, TempFile};
use std::collections::{BTreeMap, HashSet};
use std::sync::atomic::Ordering;
use std::sync::{Arc, Mutex};

pub const BLOCK: usize = 4096;

#[derive(Clone)]
pub struct Unit {
    pub off: u64,
    pub data: Arc<[u8]>,
    pub lo: usize,
    pub hi: usize,
    pub w_index: usize,
}

impl Unit {
    fn bytes(&self) -> &[u8] {
        &self.data[self.lo..self.hi]
    }
}

pub struct Epoch {
    /// log position just after the last event of the epoch
    pub end_pos: usize,
    /// writes newly durable at the start of this epoch (applied to the durable image)
    pub newly_durable: Vec<Unit>,
    /// blocks written in this epoch and not yet covered by a completed fsync
    pub inflight: Vec<Unit>,
}

fn units_of(off: u64, data: &Arc<[u8]>, w_index: usize) -> Vec<Unit> {
    let mut v = Vec::new();
    let mut lo = 0;
    while lo < data.len() {
        // split at device-block boundaries of the absolute offset
        let abs = off as usize + lo;
        let next_boundary = (abs / BLOCK + 1) * BLOCK;
        let hi = (lo + (next_boundary - abs)).min(data.len());
        v.push(Unit { off: off + lo as u64, data: data.clone(), lo, hi, w_index });
        lo = hi;
    }
    v
}

/// Split the log into epochs. An epoch ends with a completed fsync (its in-flight set
/// is what was written since the previous completed fsync, as of just before the
/// fsync completes) or with the end of the log.
pub fn epochs(log: &[IoEv]) -> Vec<Epoch> {
    let mut out = Vec::new();
    let mut pending: Vec<Unit> = Vec::new(); // written, not yet durable
    let mut carried: Vec<Unit> = Vec::new(); // durable as of the previous epoch's end
    let mut fb_snapshot: Option<usize> = None; // number of pending units when the open fsync began
    for (i, ev) in log.iter().enumerate() {
        match ev {
            IoEv::W { off, data, .. } => {
                pending.extend(units_of(*off, data, i));
            }
            IoEv::Fb => fb_snapshot = Some(pending.len()),
            IoEv::Fe { .. } => {
                let covered = fb_snapshot.take().unwrap_or(pending.len());
                // the epoch that ends here: everything pending was in flight until now
                out.push(Epoch { end_pos: i, newly_durable: std::mem::take(&mut carried), inflight: pending.clone() });
                carried = pending.drain(..covered).collect();
            }
            IoEv::Mark(..) => {}
        }
    }
    out.push(Epoch { end_pos: log.len(), newly_durable: carried, inflight: pending });
    out
}

pub fn apply_unit(image: &mut [u8], u: &Unit) {
    apply(image, u)
}

fn apply(image: &mut [u8], u: &Unit) {
    let o = u.off as usize;
    let b = u.bytes();
    if o + b.len() <= image.len() {
        image[o..o + b.len()].copy_from_slice(b);
    }
}

fn apply_torn(image: &mut [u8], u: &Unit, sectors: std::ops::Range<usize>) {
    let o = u.off as usize;
    let b = u.bytes();
    for s in sectors {
        let lo = s * 512;
        let hi = ((s + 1) * 512).min(b.len());
        if lo < hi && o + hi <= image.len() {
            image[o + lo..o + hi].copy_from_slice(&b[lo..hi]);
        }
    }
}

#[derive(Clone, Debug)]
pub struct ImageDesc {
    pub epoch: usize,
    pub cut: usize,
    /// indices (into the epoch's in-flight list) of the blocks that reached the device
    pub landed: Vec<usize>,
    /// (unit index, first sector, end sector) if one block is torn at sector granularity
    pub torn: Option<(usize, usize, usize)>,
    pub inflight: usize,
}

pub struct EnumStats {
    pub images: u64,
    pub capped_epochs: u64,
    pub max_inflight: usize,
}

/// Enumerate the crash images of `log` on top of `base`. `from_pos`: only epochs
/// ending after this log position are enumerated (earlier ones belong to a prefix
/// that was enumerated before). Calls `f(image, desc)`; `f` returns false to stop.
pub fn enumerate(
    base: &[u8],
    log: &[IoEv],
    from_pos: usize,
    sector_tear: bool,
    mut f: impl FnMut(&[u8], &ImageDesc) -> bool,
) -> EnumStats {
    let eps = epochs(log);
    let mut durable = base.to_vec();
    let mut stats = EnumStats { images: 0, capped_epochs: 0, max_inflight: 0 };
    for (ei, ep) in eps.iter().enumerate() {
        for u in &ep.newly_durable {
            apply(&mut durable, u);
        }
        if ep.end_pos <= from_pos && ei + 1 != eps.len() {
            continue;
        }
        let k = ep.inflight.len();
        stats.max_inflight = stats.max_inflight.max(k);
        let mut subsets: Vec<Vec<usize>> = Vec::new();
        if k <= 10 {
            for m in 0..(1u32 << k) {
                subsets.push((0..k).filter(|i| m >> i & 1 == 1).collect());
            }
        } else {
            // cap: all subsets of size <= 2 and of co-size <= 2, plus every prefix
            stats.capped_epochs += 1;
            subsets.push(vec![]);
            subsets.push((0..k).collect());
            for i in 0..k {
                subsets.push(vec![i]);
                subsets.push((0..k).filter(|x| *x != i).collect());
                subsets.push((0..=i).collect());
                for j in i + 1..k {
                    subsets.push(vec![i, j]);
                    subsets.push((0..k).filter(|x| *x != i && *x != j).collect());
                }
            }
            subsets.sort();
            subsets.dedup();
        }
        for s in &subsets {
            let mut img = durable.clone();
            for &i in s {
                apply(&mut img, &ep.inflight[i]);
            }
            stats.images += 1;
            if !f(&img, &ImageDesc { epoch: ei, cut: ep.end_pos, landed: s.clone(), torn: None, inflight: k }) {
                return stats;
            }
        }
        if sector_tear {
            // one block torn at 512-byte granularity; the other in-flight blocks all absent / all present
            for u in 0..k {
                let n_sectors = ep.inflight[u].bytes().len().div_ceil(512);
                if n_sectors < 2 {
                    continue;
                }
                for others_present in [false, true] {
                    if others_present && k == 1 {
                        continue;
                    }
                    let mut basis = durable.clone();
                    let mut landed = Vec::new();
                    if others_present {
                        for i in 0..k {
                            if i != u {
                                apply(&mut basis, &ep.inflight[i]);
                                landed.push(i);
                            }
                        }
                    }
                    for cutp in 1..n_sectors {
                        for (lo, hi) in [(0, cutp), (cutp, n_sectors)] {
                            let mut img = basis.clone();
                            apply_torn(&mut img, &ep.inflight[u], lo..hi);
                            stats.images += 1;
                            let d = ImageDesc { epoch: ei, cut: ep.end_pos, landed: landed.clone(), torn: Some((u, lo, hi)), inflight: k };
                            if !f(&img, &d) {
                                return stats;
                            }
                        }
                    }
                }
            }
        }
    }
    stats
}

// ------------------------------------------------------------------ obligations (oracle)

#[derive(Clone, Debug)]
pub struct KeyHist {
    pub key: Vec<u8>,
    /// successive states of the key: (index of the op that produced it, state). Entry 0 is the initial state.
    pub states: Vec<(usize, Option<Gen>)>,
}

#[derive(Clone, Debug)]
pub struct Obligations {
    pub hists: Vec<KeyHist>,
    /// (log position of the acknowledgement, per key: index into `states` that was current when the acknowledged call began)
    pub acks: Vec<(usize, Vec<usize>)>,
    /// log position of each op's begin mark
    pub op_begin: Vec<usize>,
    pub ttl: bool,
}

impl Obligations {
    /// Build from the per-op model snapshots of a SEQ path.
    pub fn from_path(
        keys: &[Vec<u8>],
        ops: &[Op],
        outs: &[Out],
        snapshots: &[BTreeMap<Vec<u8>, Gen>],
        log: &[IoEv],
        ttl: bool,
        close_is_ack: bool,
    ) -> Obligations {
        let mut hists: Vec<KeyHist> =
            keys.iter().map(|k| KeyHist { key: k.clone(), states: vec![(usize::MAX, None)] }).collect();
        let mut op_begin = vec![usize::MAX; ops.len()];
        let mut op_end = vec![usize::MAX; ops.len()];
        let mut close_end = None;
        for (pos, ev) in log.iter().enumerate() {
            match ev {
                IoEv::Mark(1, i) => op_begin[*i as usize] = pos,
                IoEv::Mark(2, i) => op_end[*i as usize] = pos,
                IoEv::Mark(4, _) => close_end = Some(pos),
                _ => {}
            }
        }
        let mut acks = Vec::new();
        for i in 0..ops.len() {
            // state of every key when op i began
            let current: Vec<usize> = hists.iter().map(|h| h.states.len() - 1).collect();
            let acknowledged = matches!(ops[i], Op::Flush | Op::Reopen) && outs[i] == Out::Unit;
            if acknowledged && op_end[i] != usize::MAX {
                acks.push((op_end[i], current));
            }
            for h in hists.iter_mut() {
                let now = snapshots[i].get(&h.key).cloned();
                if h.states.last().unwrap().1 != now {
                    h.states.push((i, now));
                }
            }
        }
        if let Some(pos) = close_end.filter(|_| close_is_ack) {
            // a clean close (on a device with room for the data) acknowledges everything
            acks.push((pos, hists.iter().map(|h| h.states.len() - 1).collect()));
        }
        Obligations { hists, acks, op_begin, ttl }
    }

    /// Per key: inclusive window [floor, ceil] of admissible state indices for a crash at `cut`.
    pub fn window(&self, cut: usize) -> Vec<(usize, usize)> {
        let floor: Vec<usize> = self
            .acks
            .iter()
            // `<=`: an acknowledgement recorded at log length n precedes every event from index n on, so
            // a crash cut at n (the epoch ending with event n, or the end of the log: a clean close is
            // the last thing in its log) is a crash after the acknowledgement. SEQ positions are the
            // indices of mark events, which never end an epoch, so nothing changes there.
            .filter(|(pos, _)| *pos <= cut)
            .next_back()
            .map(|(_, f)| f.clone())
            .unwrap_or_else(|| vec![0; self.hists.len()]);
        self.hists
            .iter()
            .zip(floor)
            .map(|(h, fl)| {
                let ceil = h
                    .states
                    .iter()
                    .rposition(|(op, _)| *op == usize::MAX || self.op_begin.get(*op).is_some_and(|b| *b < cut))
                    .unwrap_or(0);
                (fl.min(ceil), ceil)
            })
            .collect()
    }
}

#[derive(Clone, Debug, PartialEq, Eq)]
pub struct RecKey {
    pub value: Result<Vec<u8>, String>,
    pub ts: u64,
    pub expiry: u64,
    pub sector: u64,
    pub blocks: u64,
}

#[derive(Clone, Debug, PartialEq, Eq)]
pub struct Recovered {
    pub keys: BTreeMap<Vec<u8>, RecKey>,
    pub len: usize,
    pub memory_usage: usize,
    pub disk_usage: u64,
    pub free_runs: Vec<(u64, u64)>,
    pub range_keys: Vec<Vec<u8>>,
}

impl Recovered {
    /// Logical contents: key -> (value, ts, expiry)
    pub fn contents(&self) -> BTreeMap<Vec<u8>, (Result<Vec<u8>, String>, u64, u64)> {
        self.keys.iter().map(|(k, r)| (k.clone(), (r.value.clone(), r.ts, r.expiry))).collect()
    }
}

/// Open `path` with the real recovery and observe everything the oracles need.
/// Returns the store (still open) too.
pub fn recover(cfg: Cfg, path: &str, sess: Arc<Session>) -> Result<(Sut, Recovered), String> {
    let sut = match std::panic::catch_unwind(std::panic::AssertUnwindSafe(|| Sut::open_existing(cfg, path, sess))) {
        Ok(Ok(s)) => s,
        Ok(Err(e)) => return Err(format!("reopen failed: {}", crate::sut::err_name(&e))),
        Err(p) => return Err(format!("reopen panicked: {}", crate::sut::panic_text(p))),
    };
    let store = sut.store().clone();
    let d = store.verif_dump();
    let mut keys = BTreeMap::new();
    for r in &d.records {
        let value = match std::panic::catch_unwind(std::panic::AssertUnwindSafe(|| store.get(&r.key))) {
            Ok(Ok(v)) => Ok(v),
            Ok(Err(e)) => Err(crate::sut::err_name(&e)),
            Err(p) => Err(format!("panic: {}", crate::sut::panic_text(p))),
        };
        keys.insert(
            r.key.clone(),
            RecKey { value, ts: r.timestamp, expiry: r.ttl_expiry, sector: r.sector, blocks: r.blocks },
        );
    }
    let range_keys = match store.range_query(b"", &[0xff; 16], usize::MAX / 2) {
        Ok(v) => v.into_iter().map(|(k, _)| k).collect(),
        Err(_) => Vec::new(),
    };
    let rec = Recovered {
        keys,
        len: store.len(),
        memory_usage: d.memory_usage,
        disk_usage: d.disk_usage,
        free_runs: d.free_runs.clone(),
        range_keys,
    };
    Ok((sut, rec))
}

/// Structural invariants of a quiescent store (C05, C13, C14): exact partition of the
/// data area, accounting, index agreement.
pub fn structural(cfg: &Cfg, rec: &Recovered, now: u64) -> Vec<String> {
    let mut v = Vec::new();
    let total = cfg.total_blocks();
    let mut owned: Vec<(u64, u64, &Vec<u8>)> = rec.keys.iter().map(|(k, r)| (r.sector, r.blocks, k)).collect();
    owned.sort();
    let mut cursor = 16u64;
    let mut gaps: Vec<(u64, u64)> = Vec::new();
    for (s, n, k) in &owned {
        if *s < 16 || s + n > total || *n == 0 {
            v.push(format!("C05: extent {s}+{n} of key {} lies outside the data area [16,{total})", show(k)));
            continue;
        }
        if *s < cursor {
            v.push(format!("C05: extent {s}+{n} of key {} overlaps another live record's extent", show(k)));
            continue;
        }
        if *s > cursor {
            gaps.push((cursor, s - cursor));
        }
        cursor = s + n;
    }
    if cursor < total {
        gaps.push((cursor, total - cursor));
    }
    if v.is_empty() && rec.free_runs != gaps {
        v.push(format!(
            "C05: free runs {:?} are not exactly the blocks owned by no live record {:?}",
            rec.free_runs, gaps
        ));
    }
    let blocks: u64 = owned.iter().map(|o| o.1).sum();
    if rec.disk_usage != blocks * BLOCK as u64 {
        v.push(format!("C05: disk usage counter {} but live extents total {}", rec.disk_usage, blocks * BLOCK as u64));
    }
    if rec.len != rec.keys.len() {
        v.push(format!("C03: len() = {} but {} keys are exposed", rec.len, rec.keys.len()));
    }
    let overhead = std::mem::size_of::<feoxdb::core::record::Record>();
    let want: usize = rec
        .keys
        .iter()
        .map(|(k, r)| overhead + k.len() + r.value.as_ref().map(|v| v.len()).unwrap_or(0))
        .sum();
    if rec.keys.values().all(|r| r.value.is_ok()) && rec.memory_usage != want {
        v.push(format!("C13: memory_usage() = {} after recovery but the live keys account for {}", rec.memory_usage, want));
    }
    let visible: Vec<&Vec<u8>> =
        rec.keys.iter().filter(|(_, r)| !(cfg.ttl && r.expiry > 0 && now > r.expiry)).map(|(k, _)| k).collect();
    let range: Vec<&Vec<u8>> = rec.range_keys.iter().collect();
    if visible != range {
        v.push("C14: range query over everything disagrees with the hash index after recovery".into());
    }
    v
}

/// Compare a recovered store with the history window (C02, C03, C11).
pub fn judge(ob: &Obligations, cut: usize, rec: &Recovered, now: u64) -> Vec<String> {
    let mut v = Vec::new();
    let win = ob.window(cut);
    for k in rec.keys.keys() {
        if !ob.hists.iter().any(|h| &h.key == k) {
            v.push(format!("C03: key {} was never written by the application but is exposed after recovery", show(k)));
        }
    }
    for (h, (floor, ceil)) in ob.hists.iter().zip(win) {
        let got = rec.keys.get(&h.key);
        let expired = |g: &Gen| ob.ttl && g.expiry > 0 && now > g.expiry;
        let matches = |state: &Option<Gen>| -> bool {
            match (state, got) {
                (None, None) => true,
                (Some(g), None) => expired(g),
                (Some(g), Some(r)) => r.ts == g.ts && r.expiry == g.expiry && r.value.as_ref().ok() == Some(&g.value),
                (None, Some(_)) => false,
            }
        };
        if h.states[floor..=ceil].iter().any(|(_, s)| matches(s)) {
            continue;
        }
        // classify
        let describe = |s: &Option<Gen>| match s {
            None => "absent".to_string(),
            Some(g) => format!("(value {}, ts {}, expiry {})", show(&g.value), g.ts, g.expiry),
        };
        let got_s = match got {
            None => "absent".to_string(),
            Some(r) => format!(
                "(value {}, ts {}, expiry {})",
                match &r.value {
                    Ok(v) => show(v),
                    Err(e) => format!("<{e}>"),
                },
                r.ts,
                r.expiry
            ),
        };
        let window: Vec<String> = h.states[floor..=ceil].iter().map(|(_, s)| describe(s)).collect();
        let older = h.states[..floor].iter().any(|(_, s)| matches(s));
        let any = h.states.iter().any(|(_, s)| matches(s));
        let newest_expired = h.states[floor..=ceil].last().and_then(|(_, s)| s.as_ref()).is_some_and(expired);
        let tag = if older && newest_expired {
            "C11"
        } else if older {
            "C02"
        } else {
            "C03"
        };
        let what = if older {
            "an older state than the last acknowledged one"
        } else if any {
            "a state newer than any operation begun before the crash"
        } else {
            "a state the application never stored (torn, foreign or mixed generation)"
        };
        v.push(format!(
            "{tag}: key {} recovered as {got_s}: {what}; admissible window {:?}",
            show(&h.key),
            window
        ));
    }
    v
}

// ------------------------------------------------------------------ driver for one history

pub struct CrashOpts {
    pub sector_tear: bool,
    /// number of extra plain reopen cycles (C04 a)
    pub reopen_cycles: usize,
    /// depth of nested crash-during-recovery exploration (0 = none)
    pub nest: usize,
    pub now: u64,
    /// after everything else: reopen once more and issue an automatically timestamped
    /// write to every recovered key (C12 across crash recovery)
    pub probe_auto_ts: bool,
    /// after everything else: reopen, delete every recovered key, flush, close, reopen:
    /// none of them may be back (C02)
    pub continue_after: bool,
}

#[derive(Default, Debug, Clone)]
pub struct CrashStats {
    pub images: u64,
    pub distinct: u64,
    pub recoveries: u64,
    pub nested_images: u64,
    pub capped_epochs: u64,
    pub max_inflight: usize,
    pub open_failures: u64,
}

pub struct Finding {
    pub msg: String,
    pub desc: String,
}

fn write_image(img: &[u8], tag: &str) -> TempFile {
    let f = TempFile::new(tag);
    std::fs::write(&f.0, img).expect("write crash image");
    f
}

fn new_session(now: u64, cfg: &Cfg, log: bool) -> Arc<Session> {
    let s = Session::new();
    s.clock.store(now, Ordering::SeqCst);
    s.set_flag(crate::session::F_NO_URING, !cfg.uring);
    s.set_flag(crate::session::F_FORCE_SYNC, !cfg.uring);
    s.log_enabled.store(log, Ordering::SeqCst);
    s
}

/// Recover one image and apply every oracle; recurse into the recovery's own writes.
#[allow(clippy::too_many_arguments)]
fn examine(
    cfg: &Cfg,
    ob: &Obligations,
    cut: usize,
    img: &[u8],
    desc: &str,
    opts: &CrashOpts,
    level: usize,
    reference: Option<&Recovered>,
    seen: &Mutex<HashSet<u128>>,
    stats: &mut CrashStats,
    out: &mut Vec<Finding>,
) {
    let file = write_image(img, "crash");
    let sess = new_session(opts.now, cfg, opts.nest > level);
    stats.recoveries += 1;
    let (mut sut, rec) = match recover(*cfg, file.path(), sess.clone()) {
        Ok(x) => x,
        Err(e) => {
            stats.open_failures += 1;
            out.push(Finding { msg: format!("C03: {e} on a crash image"), desc: desc.to_string() });
            if let Some(r0) = reference {
                // the image is an interrupted recovery of a device that recovered fine
                out.push(Finding {
                    msg: format!("C04: recovery cannot be restarted after a crash during recovery: {e}; the first recovery succeeded with {:?}", brief(r0)),
                    desc: desc.to_string(),
                });
            }
            return;
        }
    };
    for m in judge(ob, cut, &rec, opts.now).into_iter().chain(structural(cfg, &rec, opts.now)).chain(newest_wins(cfg, img, &rec, opts.now)) {
        out.push(Finding { msg: m, desc: desc.to_string() });
    }
    if let Some(r0) = reference {
        if r0.contents() != rec.contents() {
            out.push(Finding {
                msg: format!(
                    "C04: recovery restarted after a crash during recovery yields different contents: first recovery {:?}, now {:?}",
                    brief(r0),
                    brief(&rec)
                ),
                desc: desc.to_string(),
            });
        }
    }
    // C04 (c): recovery's repair writes must not touch the extents of records it reports live
    if opts.nest > level || level == 0 {
        let log = sess.log.lock().clone();
        for ev in &log {
            if let IoEv::W { off, data, .. } = ev {
                let first = off / BLOCK as u64;
                let last = (off + data.len() as u64 - 1) / BLOCK as u64;
                for (k, r) in &rec.keys {
                    if first < r.sector + r.blocks && r.sector <= last && first >= 16 {
                        out.push(Finding {
                            msg: format!(
                                "C04: recovery wrote blocks {first}..={last}, inside the extent {}+{} of live key {}",
                                r.sector,
                                r.blocks,
                                show(k)
                            ),
                            desc: desc.to_string(),
                        });
                    }
                }
            }
        }
    }
    // C04 (a): plain reopen cycles give identical contents
    sut.close();
    let recovery_log = sess.take_log();
    for cycle in 0..opts.reopen_cycles {
        let s2 = new_session(opts.now, cfg, false);
        stats.recoveries += 1;
        match recover(*cfg, file.path(), s2) {
            Ok((mut sut2, rec2)) => {
                if rec2.contents() != rec.contents() {
                    out.push(Finding {
                        msg: format!(
                            "C04: reopening without writing changed the contents (cycle {}): {:?} then {:?}",
                            cycle + 1,
                            brief(&rec),
                            brief(&rec2)
                        ),
                        desc: desc.to_string(),
                    });
                }
                for m in structural(cfg, &rec2, opts.now) {
                    out.push(Finding { msg: format!("{m} (after reopen cycle {})", cycle + 1), desc: desc.to_string() });
                }
                sut2.close();
            }
            Err(e) => {
                out.push(Finding { msg: format!("C04: {e} when reopening a recovered device again"), desc: desc.to_string() });
                break;
            }
        }
    }
    if opts.probe_auto_ts && level == 0 {
        let s3 = new_session(opts.now, cfg, false);
        if let Ok((mut sut3, rec3)) = recover(*cfg, file.path(), s3) {
            for (k, r) in &rec3.keys {
                if r.ts == u64::MAX {
                    continue;
                }
                match sut3.store().insert(k, b"auto-timestamp probe") {
                    Ok(_) => {
                        let d = sut3.store().verif_dump();
                        if let Some(n) = d.records.iter().find(|x| &x.key == k) {
                            if n.timestamp <= r.ts {
                                out.push(Finding {
                                    msg: format!("C12: after crash recovery an automatic timestamp {} does not exceed the recovered timestamp {} of key {}", n.timestamp, r.ts, show(k)),
                                    desc: desc.to_string(),
                                });
                            }
                        }
                    }
                    Err(e) => out.push(Finding {
                        msg: format!(
                            "C12: after crash recovery an automatically timestamped write to key {} (recovered ts {}) was rejected: {}",
                            show(k),
                            r.ts,
                            crate::sut::err_name(&e)
                        ),
                        desc: desc.to_string(),
                    }),
                }
            }
            sut3.close();
        }
    }
    if opts.continue_after && level == 0 && !rec.keys.is_empty() {
        let s4 = new_session(opts.now, cfg, false);
        if let Ok((mut sut4, rec4)) = recover(*cfg, file.path(), s4) {
            let mut deleted: Vec<Vec<u8>> = Vec::new();
            for k in rec4.keys.keys() {
                if sut4.store().delete(k).is_ok() {
                    deleted.push(k.clone());
                }
            }
            let flushed = sut4.store().flush().is_ok();
            sut4.close();
            stats.recoveries += 2;
            if flushed {
                match recover(*cfg, file.path(), new_session(opts.now, cfg, false)) {
                    Ok((mut sut5, rec5)) => {
                        for k in &deleted {
                            if let Some(r) = rec5.keys.get(k) {
                                out.push(Finding {
                                    msg: format!(
                                        "C02: after crash recovery key {} was deleted and the delete acknowledged by flush() and a clean close, but the next open brings it back as {} (ts {})",
                                        show(k),
                                        r.value.as_ref().map(|b| show(b)).unwrap_or_else(|e| format!("<{e}>")),
                                        r.ts
                                    ),
                                    desc: desc.to_string(),
                                });
                            }
                        }
                        sut5.close();
                    }
                    Err(e) => out.push(Finding { msg: format!("C02: after crash recovery, deleting every key, flush and clean close the device no longer opens: {e}"), desc: desc.to_string() }),
                }
            }
        }
    }
    // C04 (b): crash during recovery's own writes, then recover again
    if opts.nest > level && recovery_log.iter().any(|e| matches!(e, IoEv::W { .. })) {
        let reference = reference.cloned().unwrap_or_else(|| rec.clone());
        let mut nested: Vec<(Vec<u8>, String)> = Vec::new();
        let st = enumerate(img, &recovery_log, 0, opts.sector_tear && level == 0, |nimg, nd| {
            let refkey = crate::util::hash64(&[format!("{:?}", reference.contents()).as_bytes()]) as u128;
            if seen.lock().unwrap().insert(hash128(nimg) ^ ((cut as u128) << 64) ^ refkey ^ 0x5a5a) {
                nested.push((nimg.to_vec(), format!("{desc} -> crash during recovery {nd:?}")));
            }
            true
        });
        stats.nested_images += st.images;
        stats.capped_epochs += st.capped_epochs;
        for (nimg, ndesc) in nested {
            stats.distinct += 1;
            examine(cfg, ob, cut, &nimg, &ndesc, opts, level + 1, Some(&reference), seen, stats, out);
        }
    }
}

fn brief(r: &Recovered) -> Vec<String> {
    r.keys
        .iter()
        .map(|(k, v)| {
            format!(
                "{}={}@{}",
                show(k),
                match &v.value {
                    Ok(b) => show(b),
                    Err(e) => format!("<{e}>"),
                },
                v.ts
            )
        })
        .collect()
}

/// Enumerate and examine all crash images of one recorded history.
pub fn check_history(
    cfg: &Cfg,
    base: &[u8],
    log: &[IoEv],
    ob: &Obligations,
    from_pos: usize,
    opts: &CrashOpts,
    seen: &Mutex<HashSet<u128>>,
    context_hash: u64,
) -> (CrashStats, Vec<Finding>) {
    let mut stats = CrashStats::default();
    let mut findings = Vec::new();
    let mut todo: Vec<(Vec<u8>, ImageDesc)> = Vec::new();
    let st = enumerate(base, log, from_pos, opts.sector_tear, |img, d| {
        // identical image + identical obligations (window) = identical verdict
        let win = ob.window(d.cut);
        let key = hash128(img) ^ ((context_hash as u128) << 64) ^ (crate::util::hash64(&[format!("{win:?}").as_bytes()]) as u128);
        if seen.lock().unwrap().insert(key) {
            todo.push((img.to_vec(), d.clone()));
        }
        true
    });
    stats.images = st.images;
    stats.capped_epochs = st.capped_epochs;
    stats.max_inflight = st.max_inflight;
    for (img, d) in todo {
        stats.distinct += 1;
        let desc = format!("{d:?}");
        examine(cfg, ob, d.cut, &img, &desc, opts, 0, None, seen, &mut stats, &mut findings);
    }
    (stats, findings)
}

/// Recover and judge a single image (no nesting); returns (recoveries run, findings).
pub fn examine_one(
    cfg: &Cfg,
    ob: &Obligations,
    cut: usize,
    img: &[u8],
    desc: &str,
    opts: &CrashOpts,
    seen: &Mutex<HashSet<u128>>,
) -> (u64, Vec<Finding>) {
    let mut stats = CrashStats::default();
    let mut out = Vec::new();
    if seen.lock().unwrap().insert(hash128(img) ^ ((cut as u128) << 64)) {
        examine(cfg, ob, cut, img, desc, opts, 0, None, seen, &mut stats, &mut out);
    }
    (stats.recoveries, out)
}

pub fn tables_keys(t: &Tables) -> Vec<Vec<u8>> {
    t.keys.iter().filter(|k| !k.is_empty() && k.len() < 100 * 1024).cloned().collect()
}

/// The C05 partition invariants on a live, quiescent store (no call in flight, flush
/// acknowledged, nothing buffered).
pub fn structural_live(cfg: &Cfg, d: &feoxdb::verif::StoreDump) -> Vec<String> {
    let mut v = Vec::new();
    let total = cfg.total_blocks();
    let mut owned: Vec<(u64, u64, &Vec<u8>)> = d.records.iter().map(|r| (r.sector, r.blocks, &r.key)).collect();
    owned.sort();
    let mut cursor = 16u64;
    let mut gaps: Vec<(u64, u64)> = Vec::new();
    for (s, n, k) in &owned {
        if *s == 0 {
            v.push(format!("C05: key {} has no extent although the flush was acknowledged", show(k)));
            continue;
        }
        if *s < 16 || s + n > total {
            v.push(format!("C05: extent {s}+{n} of key {} lies outside the data area [16,{total})", show(k)));
            continue;
        }
        if *s < cursor {
            v.push(format!("C05: extent {s}+{n} of key {} overlaps another live record's extent", show(k)));
            continue;
        }
        if *s > cursor {
            gaps.push((cursor, s - cursor));
        }
        cursor = s + n;
    }
    if cursor < total {
        gaps.push((cursor, total - cursor));
    }
    if v.is_empty() && d.free_runs != gaps {
        v.push(format!(
            "C05: at quiescence the free runs {:?} are not exactly the blocks owned by no live record {:?}",
            d.free_runs, gaps
        ));
    }
    if d.free_runs != d.free_runs_by_size {
        v.push("C05: the two free-space indexes disagree".into());
    }
    let blocks: u64 = owned.iter().map(|o| o.1).sum();
    if d.disk_usage != blocks * BLOCK as u64 {
        v.push(format!("C05: disk usage counter {} but live extents total {}", d.disk_usage, blocks * BLOCK as u64));
    }
    v
}

/// Independent reading of the image (documented format, newest timestamp wins, extents
/// of an active journal entry ignored): the recovered store must expose exactly that,
/// minus generations expired at recovery time — in particular, when the newest
/// generation of a key has expired, no older generation may reappear.
pub fn newest_wins(cfg: &Cfg, img: &[u8], rec: &Recovered, now: u64) -> Vec<String> {
    let mut v = Vec::new();
    let dec = crate::layoutref::decode(img);
    if dec.meta.is_none() || dec.journal_error {
        return v;
    }
    // a block that looks like a record head but does not parse makes the reading ambiguous
    if dec.items.iter().any(|i| matches!(i, crate::layoutref::Item::BadHead { .. } | crate::layoutref::Item::LegacyMarker { .. })) {
        return v;
    }
    if cfg.format < 3 {
        // without tokens a torn multi-block record is indistinguishable from a complete one
        return v;
    }
    let live = dec.live();
    for (k, l) in &live {
        let expired = cfg.ttl && l.rec.expiry > 0 && now > l.rec.expiry;
        match rec.keys.get(k) {
            None if expired => {}
            None => v.push(format!(
                "C03: key {} has a complete, committed record (ts {}) in the image but the recovered store does not expose it",
                show(k),
                l.rec.timestamp
            )),
            Some(r) if expired => v.push(format!(
                "C11: the newest generation of key {} on the device (ts {}, expiry {}) has expired, yet recovery exposes generation ts {} (an older generation reappeared)",
                show(k),
                l.rec.timestamp,
                l.rec.expiry,
                r.ts
            )),
            Some(r) => {
                if r.ts != l.rec.timestamp || r.value.as_ref().ok() != Some(&l.rec.value) || r.expiry != l.rec.expiry {
                    v.push(format!(
                        "C03: recovery exposes key {} with ts {} but the newest complete record in the image has ts {}",
                        show(k),
                        r.ts,
                        l.rec.timestamp
                    ));
                }
            }
        }
    }
    for k in rec.keys.keys() {
        if !live.contains_key(k) {
            v.push(format!("C03: recovery exposes key {} although the image holds no complete committed record of it", show(k)));
        }
    }
    v
}
