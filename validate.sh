#!/bin/bash
# Validate MANIFEST.json and every evidence file against the schemas.
python3-vt - <<'PY'
import json,jsonschema,glob,sys
ok=True
try:
    jsonschema.validate(json.load(open('/verif/MANIFEST.json')),json.load(open('/root/.vp/MANIFEST.schema.json'))); print('MANIFEST valid')
except Exception as e: print('MANIFEST INVALID',e); ok=False
s=json.load(open('/root/.vp/EVIDENCE.schema.json'))
for f in sorted(glob.glob('/verif/evidence/*.json')):
    try: jsonschema.validate(json.load(open(f)),s); print(f,'valid')
    except Exception as e: print(f,'INVALID',str(e)[:300]); ok=False
sys.exit(0 if ok else 1)
PY
