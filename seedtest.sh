#!/bin/bash
# seedtest.sh <patch.diff> <prop> [tier] : apply a seeded change to /repo, run the check, undo.
patch="$1"; prop="$2"; tier="${3:-quick}"
# MX_REPO / MX_VERIF: scratch copies (see seeded/mx_setup.sh) so that a matrix run does not disturb /repo or /verif
REPO="${MX_REPO:-/repo}"; VERIF="${MX_VERIF:-/verif}"
# a patch rebased onto the hooked tree takes precedence
if [ -f "${patch%patch.diff}patch.rebased.diff" ]; then patch="${patch%patch.diff}patch.rebased.diff"; fi
cd "$REPO" || exit 9
if [ -n "$(git status --porcelain --untracked-files=no)" ]; then echo "repo dirty"; exit 9; fi
if ! git apply -3 "$patch" 2>/tmp/apply.$$.err && ! git apply "$patch" 2>>/tmp/apply.$$.err; then echo "APPLY FAILED: $(cat /tmp/apply.$$.err | head -5)"; git checkout -- . ; git reset -q; exit 9; fi
cd "$VERIF" && ./bin/check "$prop" "$tier" > /tmp/seedtest.$$.out 2>&1; code=$?
git -C "$REPO" reset -q; git -C "$REPO" checkout -- .; git -C "$REPO" status --porcelain --untracked-files=no | grep -q . && echo "WARNING repo not clean"
grep -E "^(VIOLATION|MACHINERY|KNOWN|RESULT|  signature)" /tmp/seedtest.$$.out | head -8
echo "exit=$code"
rm -f /tmp/seedtest.$$.out /tmp/apply.$$.err
