#!/bin/bash
# seedtest.sh <patch.diff> <prop> [tier] : apply a seeded change to /repo, run the check, undo.
patch="$1"; prop="$2"; tier="${3:-quick}"
# a patch rebased onto the hooked tree takes precedence
if [ -f "${patch%patch.diff}patch.rebased.diff" ]; then patch="${patch%patch.diff}patch.rebased.diff"; fi
cd /repo || exit 9
if [ -n "$(git status --porcelain --untracked-files=no)" ]; then echo "repo dirty"; exit 9; fi
if ! git apply -3 "$patch" 2>/tmp/apply.err && ! git apply "$patch" 2>>/tmp/apply.err; then echo "APPLY FAILED: $(cat /tmp/apply.err | head -5)"; git checkout -- . ; git reset -q; exit 9; fi
cd /verif && ./bin/check "$prop" "$tier" > /tmp/seedtest.out 2>&1; code=$?
git -C /repo reset -q; git -C /repo checkout -- .; git -C /repo status --porcelain --untracked-files=no | grep -q . && echo "WARNING repo not clean"
grep -E "^(VIOLATION|MACHINERY|KNOWN|RESULT|  signature)" /tmp/seedtest.out | head -8
echo "exit=$code"
