#!/bin/bash
# verify_seed.sh <ID> <a|b>: confirm a seeded change in its scratch worktree:
#   demo passes on pristine, fails with the change; existing suite passes with the change.
ID="$1"; X="$2"; WT=${SEEDWT:-/tmp/seedwt}/$ID; OUT=${SEEDOUT:-/tmp/seedout}/$ID/$X
[ -f "$OUT/patch.diff" ] || { echo "no patch $OUT"; exit 2; }
cd "$WT" || exit 2
git checkout -q -- . ; git clean -fdq -e target
# install demo files
if [ -d "$OUT/demo/tests" ]; then mkdir -p tests; cp "$OUT"/demo/tests/*.rs tests/; fi
if [ -d "$OUT/demo/src" ]; then cp -r "$OUT"/demo/src/. src/; fi
if [ -f "$OUT/demo/mod_line.diff" ]; then git apply "$OUT/demo/mod_line.diff" || { echo "mod_line apply failed"; }; fi
demo_cmd() {
  local rc=0
  if [ -d "$OUT/demo/tests" ]; then
    for f in "$OUT"/demo/tests/*.rs; do n=$(basename "$f" .rs); nice cargo test --offline --test "$n" >/tmp/vs_$ID$X.log 2>&1 || rc=1; done
  fi
  if [ -d "$OUT/demo/src" ]; then
    for f in $(cd "$OUT/demo/src" && find . -name '*.rs'); do n=$(basename "$f" .rs); nice cargo test --offline --lib "$n" >>/tmp/vs_$ID$X.log 2>&1 || rc=1; grep -q "running 0 tests" /tmp/vs_$ID$X.log && ! grep -q "test result: .* [1-9][0-9]* passed\|[1-9][0-9]* failed" /tmp/vs_$ID$X.log && rc=3; done
  fi
  return $rc
}
demo_cmd; pristine=$?
git apply "$OUT/patch.diff" || { echo "patch apply failed"; exit 2; }
demo_cmd; withchange=$?
# the suite must run unedited: remove the demo files, keep only the breaking change
git checkout -q -- . ; git clean -fdq -e target
git apply "$OUT/patch.diff" || { echo "patch re-apply failed"; exit 2; }
nice cargo test --workspace --no-fail-fast --offline --lib --bins --tests >/tmp/vs_suite_$ID$X.log 2>&1; suite=$?
passed=$(grep -E "^test result" /tmp/vs_suite_$ID$X.log | awk '{p+=$4; f+=$6} END{print p" passed "f" failed"}')
git checkout -q -- . ; git clean -fdq -e target
echo "{\"id\":\"$ID$X\",\"demo_pristine_rc\":$pristine,\"demo_with_change_rc\":$withchange,\"suite_rc\":$suite,\"suite\":\"$passed\"}" | tee "$OUT/confirm.json"
