#!/usr/bin/env python3
"""Regenerate MANIFEST.json from the table below (kept next to the checks so the two cannot drift)."""
import json, subprocess
HOOK_COMMITS = subprocess.run(["git","-C","/repo","log","--format=%h %s","8b3c2af..HEAD"],capture_output=True,text=True).stdout.strip().splitlines()
hooks = [l.split()[0] for l in HOOK_COMMITS if " verif:" in " "+l.split(" ",1)[1] or l.split(" ",1)[1].startswith("verif:")]
CLAIMED = {
 "C01": dict(cat="model_checking", technique="explicit-state BFS over call sequences on the real store vs a LWW reference model",
   text="Breadth-first search over all call sequences of a 2-key alphabet up to the stated depth, on 13 configurations (memory/persistent x cache x TTL x v1/v2/v3, memory limit, error probes). Every transition is executed on a fresh real store; results, structural dump and a full read-back are compared with a last-writer-wins reference model; states are deduplicated on a canonical key of the implementation state.",
   note="Alphabet values/keys fixed (1-3 block values, boundary key sizes, explicit timestamps 5/20/2e18/MAX); depth bound per suite in evidence; model (harness/src/model.rs) is the trusted oracle.", ref="DESIGN.md §4.1, §5 C01, Appendix A"),
}
PENDING = {}
props=[json.loads(l) for l in open('/verif/properties.jsonl')]
checks=[]; na=[]
for p in props:
    i=p['id']
    if i in CLAIMED:
        c=CLAIMED[i]
        checks.append({"property_id":i,"quick_cmd":f"bin/check {i} quick","thorough_cmd":f"bin/check {i} thorough",
          "evidence_file":f"evidence/{i}.json","replay_cmd_template":f"bin/check {i} --replay {{path}}","engine":"fv",
          "level_claimed":{"category":c["cat"],"text":c["text"],"design_ref":c["ref"]},"level_note":c["note"],"technique":c["technique"]})
    else:
        na.append({"property_id":i,"reason":PENDING.get(i,"check not built yet in this session (planned: see DESIGN.md §5); not claimed until its exhaustive check exists")})
m={"version":1,"setup_cmd":"bin/setup",
 "hooks":{"guard":"cargo feature `verif` (feoxdb/Cargo.toml [features] verif = [])",
          "enable":"harness/Cargo.toml depends on feoxdb = { path = \"/repo\", default-features = false, features = [\"system-alloc\", \"verif\"] }; bin/check runs cargo build --release --offline in /verif/harness before every check",
          "baseline_off_cmd":"cd /repo && cargo test --workspace --no-fail-fast --offline",
          "source_commits":hooks,"add_only":True},
 "engines":[{"name":"fv","path":"harness","serves_properties":sorted(CLAIMED),"kind_free_text":"Rust binary: explicit-state BFS (SEQ), crash-image enumerator (CRASH), fault enumerator (FAULT), controlled scheduler (SCHED), component FSM explorers, all executing the real feoxdb code through the verif hooks"}],
 "checks":checks,"not_applicable":na,
 "notes":"Exit codes: 0 held, 1 VIOLATION, 2 machinery failure (never a verdict). Known findings: known_findings.json."}
json.dump(m,open('/verif/MANIFEST.json','w'),indent=1)
print("claimed",sorted(CLAIMED),"pending",len(na))
