#!/usr/bin/env python3
"""Regenerate MANIFEST.json from the table below (kept next to the checks so the two cannot drift)."""
import json, subprocess
HOOK_COMMITS = subprocess.run(["git","-C","/repo","log","--format=%h %s","8b3c2af..HEAD"],capture_output=True,text=True).stdout.strip().splitlines()
hooks = [l.split()[0] for l in HOOK_COMMITS if " verif:" in " "+l.split(" ",1)[1] or l.split(" ",1)[1].startswith("verif:")]
CLAIMED = {
 "C01": dict(cat="model_checking", technique="explicit-state BFS over call sequences on the real store vs a LWW reference model",
   text="Breadth-first search over all call sequences of a 2-key alphabet up to the stated depth, on 13 configurations (memory/persistent x cache x TTL x v1/v2/v3, memory limit, error probes). Every transition is executed on a fresh real store; results, structural dump and a full read-back are compared with a last-writer-wins reference model; states are deduplicated on a canonical key of the implementation state.",
   note="Alphabet values/keys fixed (1-3 block values, boundary key sizes, explicit timestamps 5/20/2e18/MAX); depth bound per suite in evidence; model (harness/src/model.rs) is the trusted oracle.", ref="DESIGN.md §4.1, §5 C01, Appendix A"),
}
CLAIMED.update({
 "C06": dict(cat="model_checking", technique="complete reachable-state-graph exploration of the real FreeSpaceManager vs a bitmap allocator",
   text="For device sizes D in {3,6,9(,12..)} data blocks and both initial states (initialised / recovery-empty) the complete reachable state graph of the real allocator is built (every bitmap state), applying every allocate(n) and release(s,c) argument including zero, reserved, out-of-bounds, overlapping and overflowing ones; a bitmap reference decides acceptance and overlap, and the reported totals/run count/largest run are compared with the merged true free set after every call.",
   note="The 'randomly beyond' clause is not attempted (sampling is outside the technique); fragmentation percentage only range-checked.", ref="DESIGN.md §4.5, §5 C06"),
 "C11": dict(cat="model_checking", technique="explicit-state BFS with a virtual clock over TTL alphabets (boundary instants) vs an expiry-exact reference model",
   text="BFS over call sequences including advance-clock symbols that land one ns before / exactly on / one ns after the nearest expiry, the sweeper step, flush and reopen, on memory and persistent v1/v2/v3 stores; every value-reading call and a full read-back are compared with an expiry-exact model after every transition.",
   note="Sequential part only so far: sweeper-vs-writer interleavings and crash images are added by the SCHED/CRASH engines when listed in evidence.", ref="DESIGN.md §5 C11"),
 "C12": dict(cat="model_checking", technique="explicit-state BFS over automatic/explicit timestamp mixes; clock bound oracle fed by a timestamp hook",
   text="BFS over sequences mixing automatic and explicit (past, equal, future, u64::MAX) timestamps over every write kind, including calls that fail while carrying a large explicit timestamp (memory limit, invalid size, CAS mismatch, failing patch), across flush and reopen on v1/v2/v3 devices. Oracle: every automatic timestamp (reported by hook H8) exceeds the key's current and previously accepted timestamps and never runs ahead of max(now, 1+largest timestamp accepted/recovered).",
   note="Crash-recovery placement is covered through the C02/C03 engine once built.", ref="DESIGN.md §5 C12"),
 "C13": dict(cat="model_checking", technique="explicit-state BFS; exact byte-accounting oracle after every transition",
   text="After every transition of the BFS (memory, memory-limit, TTL, persistent incl. reopen) memory_usage() must equal the sum over live keys of (size_of Record + key + value) and len() the live-key count; refused writes must change nothing (state identity).",
   note="Concurrent part (limit never exceeded under interleavings) is added by the SCHED engine when listed in evidence.", ref="DESIGN.md §5 C13"),
 "C16": dict(cat="model_checking", technique="explicit-state exploration of the real ClockCache vs an exact CLOCK model + cache-on/off differential BFS",
   text="(1) BFS over the public and generation-tagged API of the real ClockCache with 2 MB/1 MB watermarks against an exact CLOCK reference (entries, reference bits, hand, byte accounting) plus policy-independent clauses (no hit after remove, generation-exact hits, eviction reaches the low mark and spares referenced entries when unreferenced suffice). (2) Every persistent SEQ path is executed with the cache on and off in lock-step and must give identical results.",
   note="Reader/writer interleavings on cache-warm keys are added by the SCHED engine when listed in evidence.", ref="DESIGN.md §5 C16"),
})
PENDING = {}
props=[json.loads(l) for l in open('/verif/properties.jsonl')]
checks=[]; na=[]
for p in props:
    i=p['id']
    if i in CLAIMED:
        c=CLAIMED[i]
        checks.append({"property_id":i,"quick_cmd":f"bin/check {i} quick","thorough_cmd":f"bin/check {i} thorough",
          "evidence_file":f"evidence/{i}.json","replay_cmd_template":f"bin/check {i} --replay {{path}}","engine":"fv",
          "level_claimed":{"category":c["cat"],"text":c["text"],"design_ref":c["ref"]},"level_note":c["note"],"technique":c["technique"]})
    else:
        na.append({"property_id":i,"reason":PENDING.get(i,"check not built yet in this session (planned: see DESIGN.md §5); not claimed until its exhaustive check exists")})
m={"version":1,"setup_cmd":"bin/setup",
 "hooks":{"guard":"cargo feature `verif` (feoxdb/Cargo.toml [features] verif = [])",
          "enable":"harness/Cargo.toml depends on feoxdb = { path = \"/repo\", default-features = false, features = [\"system-alloc\", \"verif\"] }; bin/check runs cargo build --release --offline in /verif/harness before every check",
          "baseline_off_cmd":"cd /repo && cargo test --workspace --no-fail-fast --offline",
          "source_commits":hooks,"add_only":True},
 "engines":[{"name":"fv","path":"harness","serves_properties":sorted(CLAIMED),"kind_free_text":"Rust binary: explicit-state BFS (SEQ), crash-image enumerator (CRASH), fault enumerator (FAULT), controlled scheduler (SCHED), component FSM explorers, all executing the real feoxdb code through the verif hooks"}],
 "checks":checks,"not_applicable":na,
 "notes":"Exit codes: 0 held, 1 VIOLATION, 2 machinery failure (never a verdict). Known findings: known_findings.json."}
json.dump(m,open('/verif/MANIFEST.json','w'),indent=1)
print("claimed",sorted(CLAIMED),"pending",len(na))
