#!/usr/bin/env python3
"""Regenerate MANIFEST.json from the table below (kept next to the checks so the two cannot drift)."""
import json, subprocess
HOOK_COMMITS = subprocess.run(["git","-C","/repo","log","--format=%h %s","8b3c2af..HEAD"],capture_output=True,text=True).stdout.strip().splitlines()
hooks = [l.split()[0] for l in HOOK_COMMITS if " verif:" in " "+l.split(" ",1)[1] or l.split(" ",1)[1].startswith("verif:")]
CLAIMED = {
 "C01": dict(cat="model_checking", technique="explicit-state BFS over call sequences on the real store vs a LWW reference model",
   text="Breadth-first search over all call sequences of a 2-key alphabet up to the stated depth, on 13 configurations (memory/persistent x cache x TTL x v1/v2/v3, memory limit, error probes). Every transition is executed on a fresh real store; results, structural dump and a full read-back are compared with a last-writer-wins reference model; states are deduplicated on a canonical key of the implementation state.",
   note="Alphabet values/keys fixed (1-3 block values, boundary key sizes, explicit timestamps 5/20/2e18/MAX); depth bound per suite in evidence; model (harness/src/model.rs) is the trusted oracle.", ref="DESIGN.md §4.1, §5 C01, Appendix A"),
}
CLAIMED.update({
 "C06": dict(cat="model_checking", technique="complete reachable-state-graph exploration of the real FreeSpaceManager vs a bitmap allocator",
   text="For device sizes D in {3,6,9(,12..)} data blocks and both initial states (initialised / recovery-empty) the complete reachable state graph of the real allocator is built (every bitmap state), applying every allocate(n) and release(s,c) argument including zero, reserved, out-of-bounds, overlapping and overflowing ones; a bitmap reference decides acceptance and overlap, and the reported totals/run count/largest run are compared with the merged true free set after every call.",
   note="The 'randomly beyond' clause is not attempted (sampling is outside the technique); fragmentation percentage only range-checked.", ref="DESIGN.md §4.5, §5 C06"),
 "C11": dict(cat="model_checking", technique="explicit-state BFS with a virtual clock over TTL alphabets (boundary instants) vs an expiry-exact reference model",
   text="BFS over call sequences including advance-clock symbols that land one ns before / exactly on / one ns after the nearest expiry, the sweeper step, flush and reopen, on memory and persistent v1/v2/v3 stores; every value-reading call and a full read-back are compared with an expiry-exact model after every transition.",
   note="Sequential part only so far: sweeper-vs-writer interleavings and crash images are added by the SCHED/CRASH engines when listed in evidence.", ref="DESIGN.md §5 C11"),
 "C12": dict(cat="model_checking", technique="explicit-state BFS over automatic/explicit timestamp mixes; clock bound oracle fed by a timestamp hook",
   text="BFS over sequences mixing automatic and explicit (past, equal, future, u64::MAX) timestamps over every write kind, including calls that fail while carrying a large explicit timestamp (memory limit, invalid size, CAS mismatch, failing patch), across flush and reopen on v1/v2/v3 devices. Oracle: every automatic timestamp (reported by hook H8) exceeds the key's current and previously accepted timestamps and never runs ahead of max(now, 1+largest timestamp accepted/recovered).",
   note="Crash-recovery placement is covered through the C02/C03 engine once built.", ref="DESIGN.md §5 C12"),
 "C13": dict(cat="model_checking", technique="explicit-state BFS; exact byte-accounting oracle after every transition",
   text="After every transition of the BFS (memory, memory-limit, TTL, persistent incl. reopen) memory_usage() must equal the sum over live keys of (size_of Record + key + value) and len() the live-key count; refused writes must change nothing (state identity).",
   note="Concurrent part (limit never exceeded under interleavings) is added by the SCHED engine when listed in evidence.", ref="DESIGN.md §5 C13"),
 "C16": dict(cat="model_checking", technique="explicit-state exploration of the real ClockCache vs an exact CLOCK model + cache-on/off differential BFS",
   text="(1) BFS over the public and generation-tagged API of the real ClockCache with 2 MB/1 MB watermarks against an exact CLOCK reference (entries, reference bits, hand, byte accounting) plus policy-independent clauses (no hit after remove, generation-exact hits, eviction reaches the low mark and spares referenced entries when unreferenced suffice). (2) Every persistent SEQ path is executed with the cache on and off in lock-step and must give identical results.",
   note="Reader/writer interleavings on cache-warm keys are added by the SCHED engine when listed in evidence.", ref="DESIGN.md §5 C16"),
})
CLAIMED.update({
 "C02": dict(cat="model_checking", technique="exhaustive crash-image enumeration of device-write logs of BFS histories; real recovery vs per-key history window",
   text="Every history of a BFS over write/overwrite/delete/TTL/flush/tick alphabets is executed on the real store over a logged device (from before the device exists). For every epoch of the log every subset of in-flight 4 KiB blocks and 512-byte tearing of single blocks is applied to the durable image; every distinct image is reopened with the real recovery and each key must recover a state no older than the one current when the last acknowledged flush (or clean close) began.",
   note="fsync model: a completed fsync makes all earlier writes durable; un-synced blocks may be lost, reordered or torn independently. Histories bounded by the depth in evidence; one worker, coordinator tick as an explicit symbol. Background-flusher interleavings need the SCHED engine (listed in evidence when run).", ref="DESIGN.md §4.2, §5 C02"),
 "C03": dict(cat="model_checking", technique="exhaustive crash-image enumeration incl. adversarial values; reopen must succeed with authentic untorn generations",
   text="Same images as C02 with a harsher oracle: reopen must succeed; every exposed key must carry exactly one generation (value, timestamp, expiry) the application stored, inside the admissible window; never-written keys must not surface; len() equals the exposed keys. Alphabets include two-block values whose second block is a byte-exact valid record of another key (token bound to the block it lands on), a valid COMPLETE retirement marker, and a legacy marker.",
   note="As C02. Found and fixed: un-synced fresh-device metadata (known_findings.json).", ref="DESIGN.md §5 C03"),
 "C04": dict(cat="model_checking", technique="nested crash-image enumeration of recovery's own writes; repeated reopen",
   text="Every crash image that opens is reopened again without writing (contents must be identical), and the first recovery's own device-write log (journal replay, retirement of losers/expired generations, journal clears, metadata) is enumerated again into nested crash images, each recovered and required to yield the contents of the first successful recovery; recovery's writes are intersected with the extents of the records it reports live.",
   note="Nesting depth and reopen cycles per tier in evidence.", ref="DESIGN.md §5 C04"),
 "C05": dict(cat="model_checking", technique="BFS on tiny devices with mixed extent sizes; exact-partition oracle at every quiescent point and after every crash recovery",
   text="Deep BFS histories on 5-7 block devices and on v1/v2/v3 devices with block-boundary-sized records: after every acknowledged flush/reopen/tick the live store's extents must be pairwise disjoint, in bounds, and the free runs exactly their complement; the usage counter must equal the live extents; an independent decoder of the raw file must find exactly the live keys' bytes (no other key damaged) and matching metadata counters. The same partition invariants are checked on every store recovered from a crash image.",
   note="Worker count 1; multi-worker schedules are out of the quick tier.", ref="DESIGN.md §5 C05"),
 "C10": dict(cat="model_checking", technique="BFS histories; every flushed image decoded by an independent implementation of the documented layout; golden files opened by the current tree",
   text="Every acknowledged-flush image of a BFS over key lengths {1,255,256,max recoverable}, 1-3 block values, extreme timestamps and expiries on v1/v2/v3 devices is decoded by layoutref (own CRC32C, token fold, marker/journal/metadata layout, newest-timestamp-wins) and must contain exactly the live keys, a clear journal, valid metadata copies with counters equal to the live totals, verifying tokens (v3) or zero tokens (v1/v2). Conversely golden v3 files written by the pinned commit and layoutref-encoded v1/v2 files (duplicates, markers, max keys) must open and read back key for key, and legacy devices must keep their record format when written to.",
   note="layoutref shares no code with the crate; golden/INDEX.json pins the corpus by hash.", ref="DESIGN.md §4.6, §5 C10"),
})
CLAIMED.update({
 "C07": dict(cat="model_checking", technique="deviation-bounded exhaustive schedule exploration (controlled scheduler over real threads) + brute-force linearizability check",
   text="About a thousand programs (all pairs of 1-2-op thread bodies on one shared key from four initial states, triples of single ops; memory-only and persistent with the flush worker and coordinator under control) are explored over every schedule within the deviation (preemption) bound at hook-point granularity. Every complete execution's invocation/response history plus the final state is checked by brute-force linearization against the LWW model, treating every call as explicitly timestamped with the timestamp the store reported, with exactly the two permitted refusals.",
   note="Interleavings are sequentially consistent at hook granularity: a race window lying entirely between two adjacent hook points is invisible (see DESIGN §10). Bound 2 quick / 3 thorough.", ref="DESIGN.md §4.4, §5 C07"),
 "C08": dict(cat="model_checking", technique="exhaustive schedule exploration with the flush worker controlled; linearizability oracle + device-write/pinned-extent monitor",
   text="Reader (get, get_bytes, range, CAS, increment) vs overwrite/delete/TTL-rewrite, flush or coordinator tick, and a second key reusing the freed extent, on 3-6 block devices, cache on and off, 1- and 2-block values: every schedule within the bound. Read results are checked by linearization (StaleExtent only under a concurrent rewrite); an I/O monitor fails the run if any device write intersects an extent a reader has pinned and not yet released.",
   note="Bound 1 quick / 2 thorough; worker, coordinator and application threads all under the scheduler.", ref="DESIGN.md §5 C08"),
 "C09": dict(cat="fault_enumeration", technique="exhaustive enumeration of I/O answers per device call (1 and 2 deviations, permanent failure from each call) + crash-image check of every faulted history",
   text="For five (seven thorough) workloads, every device call (each journal, data, marker and metadata write and each fsync) is answered fail-before, fail-after or short-write, singly, in every pair, and as permanent failure from that call on. After every call reads must return the latest accepted values; every crash image of the faulted history must recover a state no older than the last acknowledged flush; after the device heals flush must succeed (or, after an indeterminate failure, succeed after reopening a copy).",
   note="Faults on the synchronous write path (io_uring disabled); fsync failure model in evidence assumptions.", ref="DESIGN.md §4.3, §5 C09"),
 "C14": dict(cat="model_checking", technique="complete small-scope enumeration of range queries + exhaustive schedule exploration of scans vs writers",
   text="(1) Every subset of a 6-key universe (shared prefixes, NUL, 0xff) x every pair of 10 bounds x limits x six storage variants (memory, expired entries, disk cold/warm, v1) compared exactly with the model; (2) BFS suites with range symbols; (3) scans racing inserts/updates/deletes/flushes of neighbours under the controlled scheduler: ordering, bounds, limit, genuine values, stable keys neither missed nor duplicated, and index agreement at quiescence.",
   note="Concurrent part at hook-point granularity (scanner yields at every visited entry).", ref="DESIGN.md §5 C14"),
 "C15": dict(cat="exploration", technique="exhaustive synthesis of legacy images (item sequences) + crash images of real v1/v2 workloads, each migrated under every option combination; environment interference at every point of migrate()",
   text="All sequences of up to 3 (4 thorough) items from 13 image building blocks (records, duplicates, expired winner, token and legacy markers, active journals incl. descending extents, max key) on v1 and v2, plus ~1200 distinct crash images of real legacy workloads, each migrated with opt-in off/on and with a pre-existing destination. Oracle: source bytes unchanged, no destination or temp file on failure, destination v3 with contents equal to a read-write recovery of a copy of the source (through the store and through the independent decoder), existing destination untouched. The source is also modified at each named point of migrate().",
   note="Multi-batch paths (256-record scan batches, 4096-record flush threshold) are not enumerated.", ref="DESIGN.md §5 C15"),
 "C17": dict(cat="exploration", technique="exhaustive structured corruption of small valid images, opened in isolated child processes",
   text="~160k images: every bit of every structure head, boundary values in every 2/4/8-byte header window, every block swap/duplication/zeroing, size classes, and forged metadata/journal/record/marker structures with recomputed checksums or tokens, over eight base images (v1/v2/v3, markers, active journal, max key). No panic, abort, hang; a rejection for size or missing/invalid metadata must leave the file byte-identical (reason established independently of the error code); an opened store must answer a fixed probe.",
   note="Random byte patterns are not sampled.", ref="DESIGN.md §5 C17"),
 "C18": dict(cat="model_checking", technique="exhaustive schedule exploration with visible locks and waits; deadlock = no enabled thread, livelock = decision horizon",
   text="Contention programs (concurrent flush callers, flush vs tick, full device, reader held inside a read, failing writes / fsyncs / one failing batch, two workers on two shards) are explored over every schedule within the bound with every lock that is held across a hook made visible (disk, free-space, retirement queue, metadata) so that a lock-order inversion shows up as 'no thread can run'. Every call in every other engine runs under a watchdog as well.",
   note="Bound 1 quick / 2 thorough.", ref="DESIGN.md §5 C18"),
 "C19": dict(cat="model_checking", technique="complete matrix of worker counts x shards x neighbour states x write kinds with coordinator rounds as explicit steps + schedule exploration of writers racing a round",
   text="For every worker count 1..8, every shard, idle/busy neighbours and insert/overwrite/delete/sweep/failed-batch/1100-entry burst: the write is performed, flush() is never called, coordinator rounds are granted one at a time and after at most 2 (3 after a failed batch) the image rebuilt from synced device writes must recover the write, nothing may remain queued and the superseded extent must be released. Writers racing a coordinator round are explored under the controlled scheduler with the same oracle.",
   note="The real-time constant is not measured: rounds are counted.", ref="DESIGN.md §5 C19"),
 "C20": dict(cat="model_checking", technique="the SEQ/SCHED/FAULT enumerations re-executed under AddressSanitizer",
   text="The sequence, schedule (bound 1 quick / 2 thorough) and single-fault enumerations are re-executed with feoxdb and the harness compiled with -Zsanitizer=address in child processes; any sanitizer report or abnormal exit is the violation and the program/schedule being explored the replay. The same thread bodies are also run without the controller (sampling supplement, reported separately).",
   note="Kernel-side io_uring buffer lifetime and O_DIRECT paths are out of reach.", ref="DESIGN.md §5 C20"),
})
PENDING = {}
props=[json.loads(l) for l in open('/verif/properties.jsonl')]
checks=[]; na=[]
for p in props:
    i=p['id']
    if i in CLAIMED:
        c=CLAIMED[i]
        checks.append({"property_id":i,"quick_cmd":f"bin/check {i} quick","thorough_cmd":f"bin/check {i} thorough",
          "evidence_file":f"evidence/{i}.json","replay_cmd_template":f"bin/check {i} --replay {{path}}","engine":"fv",
          "level_claimed":{"category":c["cat"],"text":c["text"],"design_ref":c["ref"]},"level_note":c["note"],"technique":c["technique"]})
    else:
        na.append({"property_id":i,"reason":PENDING.get(i,"check not built yet in this session (planned: see DESIGN.md §5); not claimed until its exhaustive check exists")})
m={"version":1,"setup_cmd":"bin/setup",
 "hooks":{"guard":"cargo feature `verif` (feoxdb/Cargo.toml [features] verif = [])",
          "enable":"harness/Cargo.toml depends on feoxdb = { path = \"/repo\", default-features = false, features = [\"system-alloc\", \"verif\"] }; bin/check runs cargo build --release --offline in /verif/harness before every check",
          "baseline_off_cmd":"cd /repo && cargo test --workspace --no-fail-fast --offline",
          "source_commits":hooks,"add_only":True},
 "engines":[{"name":"fv","path":"harness","serves_properties":sorted(CLAIMED),"kind_free_text":"Rust binary: explicit-state BFS (SEQ), crash-image enumerator (CRASH), fault enumerator (FAULT), controlled scheduler (SCHED), component FSM explorers, all executing the real feoxdb code through the verif hooks"}],
 "checks":checks,"not_applicable":na,
 "notes":"Exit codes: 0 held, 1 VIOLATION, 2 machinery failure (never a verdict). Known findings: known_findings.json."}
json.dump(m,open('/verif/MANIFEST.json','w'),indent=1)
print("claimed",sorted(CLAIMED),"pending",len(na))
